/-
  C14 — finite-field feasibility sets: the listed / complemented representation implements
  union, intersection, membership, equality, emptiness, fullness, single-point test and size as
  the corresponding operations on subsets of Z_M, with correct status flags.
-/
import LP.Model.FSI
import LP.Props.C17
import Mathlib.Data.Finset.Card
import Mathlib.Data.List.Sort
import Mathlib.Order.Interval.Finset.Defs
import Mathlib.Algebra.Order.Group.Int
import Mathlib.Order.Interval.Finset.Basic
import Mathlib.Data.Int.Interval
import Mathlib.Tactic.Linarith

namespace LP


/-! ### the three sorted-list sweeps -/

theorem ounion_mem (l1 l2 : List Int) (x : Int) : x ∈ (ounion l1 l2).1 ↔ x ∈ l1 ∨ x ∈ l2 := by
  induction l1, l2 using ounion.induct with
  | case1 => simp [ounion]
  | case2 a l1 => simp [ounion]
  | case3 b l2 => simp [ounion]
  | case4 a l1 b l2 h ih =>
    rw [ounion]; simp only [h, if_true, List.mem_cons]; rw [ih]; simp only [List.mem_cons]; tauto
  | case5 a l1 b l2 h1 h2 ih =>
    rw [ounion]; simp only [h1, h2, if_false, if_true, List.mem_cons]; rw [ih]; simp only [List.mem_cons]; tauto
  | case6 a l1 b l2 h1 h2 ih =>
    rw [ounion]; simp only [h1, h2, if_false, List.mem_cons]; rw [ih]
    have : a = b := by omega
    subst this; tauto

theorem ounion_sorted (l1 l2 : List Int) (h1 : List.Pairwise (· < ·) l1) (h2 : List.Pairwise (· < ·) l2) : List.Pairwise (· < ·) (ounion l1 l2).1 := by
  induction l1, l2 using ounion.induct with
  | case1 => simp [ounion]
  | case2 a l1 => simpa [ounion] using h1
  | case3 b l2 => simpa [ounion] using h2
  | case4 a l1 b l2 h ih =>
    rw [ounion]; simp only [h, if_true]
    rw [List.pairwise_cons] at h1 ⊢
    refine ⟨?_, ih h1.2 h2⟩
    intro y hy
    rw [ounion_mem] at hy
    rcases hy with hy | hy
    · exact h1.1 y hy
    · rcases List.mem_cons.1 hy with hy | hy
      · omega
      · have := (List.pairwise_cons.1 h2).1 y hy; omega
  | case5 a l1 b l2 hn h ih =>
    rw [ounion]; simp only [hn, h, if_false, if_true]
    rw [List.pairwise_cons] at h2 ⊢
    refine ⟨?_, ih h1 h2.2⟩
    intro y hy
    rw [ounion_mem] at hy
    rcases hy with hy | hy
    · rcases List.mem_cons.1 hy with hy | hy
      · omega
      · have := (List.pairwise_cons.1 h1).1 y hy; omega
    · exact h2.1 y hy
  | case6 a l1 b l2 hn1 hn2 ih =>
    rw [ounion]; simp only [hn1, hn2, if_false]
    have hab : a = b := by omega
    subst hab
    rw [List.pairwise_cons] at h1 h2 ⊢
    refine ⟨?_, ih h1.2 h2.2⟩
    intro y hy
    rw [ounion_mem] at hy
    rcases hy with hy | hy
    · exact h1.1 y hy
    · exact h2.1 y hy

/-- `just_i1`: every element of the second list is in the first (the union is the first operand) -/
theorem ounion_flags (l1 l2 : List Int) :
    ((ounion l1 l2).2.1 = true → ∀ x ∈ l2, x ∈ l1) ∧ ((ounion l1 l2).2.2 = true → ∀ x ∈ l1, x ∈ l2) := by
  induction l1, l2 using ounion.induct with
  | case1 => simp [ounion]
  | case2 a l1 => simp [ounion]
  | case3 b l2 => simp [ounion]
  | case4 a l1 b l2 h ih =>
    rw [ounion]; simp only [h, if_true]
    refine ⟨fun hf x hx => List.mem_cons_of_mem _ (ih.1 hf x hx), fun hf => absurd hf (by simp)⟩
  | case5 a l1 b l2 hn h ih =>
    rw [ounion]; simp only [hn, h, if_false, if_true]
    refine ⟨fun hf => absurd hf (by simp), fun hf x hx => List.mem_cons_of_mem _ (ih.2 hf x hx)⟩
  | case6 a l1 b l2 hn1 hn2 ih =>
    rw [ounion]; simp only [hn1, hn2, if_false]
    have hab : a = b := by omega
    subst hab
    constructor
    · intro hf x hx
      rcases List.mem_cons.1 hx with hx | hx
      · rw [hx]; exact List.mem_cons_self
      · exact List.mem_cons_of_mem _ (ih.1 hf x hx)
    · intro hf x hx
      rcases List.mem_cons.1 hx with hx | hx
      · rw [hx]; exact List.mem_cons_self
      · exact List.mem_cons_of_mem _ (ih.2 hf x hx)

theorem ointersect_mem (l1 l2 : List Int) (h1 : List.Pairwise (· < ·) l1) (h2 : List.Pairwise (· < ·) l2) (x : Int) :
    x ∈ (ointersect l1 l2).1 ↔ x ∈ l1 ∧ x ∈ l2 := by
  induction l1, l2 using ointersect.induct with
  | case1 => simp [ointersect]
  | case2 b l2 => simp [ointersect]
  | case3 a l1 => simp [ointersect]
  | case4 a l1 b l2 h ih =>
    rw [ointersect]; simp only [h, if_true]
    rw [ih h1 (List.pairwise_cons.1 h2).2]
    simp only [List.mem_cons]
    constructor
    · rintro ⟨ha, hb⟩; exact ⟨ha, Or.inr hb⟩
    · rintro ⟨ha, hb | hb⟩
      · exfalso
        rcases ha with ha | ha
        · omega
        · have := (List.pairwise_cons.1 h1).1 x ha; omega
      · exact ⟨ha, hb⟩
  | case5 a l1 b l2 hn h ih =>
    rw [ointersect]; simp only [hn, h, if_false, if_true]
    rw [ih (List.pairwise_cons.1 h1).2 h2]
    simp only [List.mem_cons]
    constructor
    · rintro ⟨ha, hb⟩; exact ⟨Or.inr ha, hb⟩
    · rintro ⟨ha | ha, hb⟩
      · exfalso
        rcases hb with hb | hb
        · omega
        · have := (List.pairwise_cons.1 h2).1 x hb; omega
      · exact ⟨ha, hb⟩
  | case6 a l1 b l2 hn1 hn2 ih =>
    rw [ointersect]; simp only [hn1, hn2, if_false]
    have hab : a = b := by omega
    subst hab
    have s1 := List.pairwise_cons.1 h1
    have s2 := List.pairwise_cons.1 h2
    simp only [List.mem_cons]
    rw [ih s1.2 s2.2]
    constructor
    · rintro (h | ⟨ha, hb⟩)
      · exact ⟨Or.inl h, Or.inl h⟩
      · exact ⟨Or.inr ha, Or.inr hb⟩
    · rintro ⟨ha | ha, hb | hb⟩
      · exact Or.inl ha
      · exact Or.inl ha
      · exact Or.inl hb
      · exact Or.inr ⟨ha, hb⟩

theorem ointersect_sub (l1 l2 : List Int) : ∀ x ∈ (ointersect l1 l2).1, x ∈ l1 := by
  induction l1, l2 using ointersect.induct with
  | case1 => simp [ointersect]
  | case2 b l2 => simp [ointersect]
  | case3 a l1 => simp [ointersect]
  | case4 a l1 b l2 h ih => rw [ointersect]; simp only [h, if_true]; exact ih
  | case5 a l1 b l2 hn h ih =>
    rw [ointersect]; simp only [hn, h, if_false, if_true]
    intro x hx; exact List.mem_cons_of_mem _ (ih x hx)
  | case6 a l1 b l2 hn1 hn2 ih =>
    rw [ointersect]; simp only [hn1, hn2, if_false]
    intro x hx
    rcases List.mem_cons.1 hx with hx | hx
    · rw [hx]; exact List.mem_cons_self
    · exact List.mem_cons_of_mem _ (ih x hx)

theorem ointersect_sorted (l1 l2 : List Int) (h1 : List.Pairwise (· < ·) l1) : List.Pairwise (· < ·) (ointersect l1 l2).1 := by
  induction l1, l2 using ointersect.induct with
  | case1 => simp [ointersect]
  | case2 b l2 => simp [ointersect]
  | case3 a l1 => simp [ointersect]
  | case4 a l1 b l2 h ih => rw [ointersect]; simp only [h, if_true]; exact ih h1
  | case5 a l1 b l2 hn h ih =>
    rw [ointersect]; simp only [hn, h, if_false, if_true]; exact ih (List.pairwise_cons.1 h1).2
  | case6 a l1 b l2 hn1 hn2 ih =>
    rw [ointersect]; simp only [hn1, hn2, if_false]
    have s1 := List.pairwise_cons.1 h1
    rw [List.pairwise_cons]
    exact ⟨fun y hy => s1.1 y (ointersect_sub l1 l2 y hy), ih s1.2⟩

/-- `all_i1`: every element of the first list is in the second (the intersection is the first operand) -/
theorem ointersect_flags (l1 l2 : List Int) :
    ((ointersect l1 l2).2.1 = true → ∀ x ∈ l1, x ∈ l2) ∧ ((ointersect l1 l2).2.2 = true → ∀ x ∈ l2, x ∈ l1) := by
  induction l1, l2 using ointersect.induct with
  | case1 => simp [ointersect]
  | case2 b l2 => simp [ointersect]
  | case3 a l1 => simp [ointersect]
  | case4 a l1 b l2 h ih =>
    rw [ointersect]; simp only [h, if_true]
    exact ⟨fun hf x hx => List.mem_cons_of_mem _ (ih.1 hf x hx), fun hf => absurd hf (by simp)⟩
  | case5 a l1 b l2 hn h ih =>
    rw [ointersect]; simp only [hn, h, if_false, if_true]
    exact ⟨fun hf => absurd hf (by simp), fun hf x hx => List.mem_cons_of_mem _ (ih.2 hf x hx)⟩
  | case6 a l1 b l2 hn1 hn2 ih =>
    rw [ointersect]; simp only [hn1, hn2, if_false]
    have hab : a = b := by omega
    subst hab
    constructor
    · intro hf x hx
      rcases List.mem_cons.1 hx with hx | hx
      · rw [hx]; exact List.mem_cons_self
      · exact List.mem_cons_of_mem _ (ih.1 hf x hx)
    · intro hf x hx
      rcases List.mem_cons.1 hx with hx | hx
      · rw [hx]; exact List.mem_cons_self
      · exact List.mem_cons_of_mem _ (ih.2 hf x hx)

theorem ominus_mem (l1 l2 : List Int) (h1 : List.Pairwise (· < ·) l1) (h2 : List.Pairwise (· < ·) l2) (x : Int) :
    x ∈ (ominus l1 l2).1 ↔ x ∈ l1 ∧ x ∉ l2 := by
  induction l1, l2 using ominus.induct with
  | case1 l2 => simp [ominus]
  | case2 a l1 => simp [ominus]
  | case3 a l1 l2 ih =>
    rw [ominus]; simp only [if_true]
    have s1 := List.pairwise_cons.1 h1
    have s2 := List.pairwise_cons.1 h2
    rw [ih s1.2 s2.2]
    simp only [List.mem_cons, not_or]
    constructor
    · rintro ⟨ha, hb⟩
      exact ⟨Or.inr ha, by have := s1.1 x ha; omega, hb⟩
    · rintro ⟨ha | ha, hb1, hb2⟩
      · exact absurd ha hb1
      · exact ⟨ha, hb2⟩
  | case4 a l1 b l2 hn h ih =>
    rw [ominus]; simp only [hn, h, if_false, if_true]
    have s1 := List.pairwise_cons.1 h1
    simp only [List.mem_cons]
    rw [ih s1.2 h2]
    simp only [List.mem_cons, not_or]
    constructor
    · rintro (hx | ⟨ha, hb⟩)
      · refine ⟨Or.inl hx, by omega, ?_⟩
        intro hm; have := (List.pairwise_cons.1 h2).1 x hm; omega
      · exact ⟨Or.inr ha, hb⟩
    · rintro ⟨ha | ha, hb⟩
      · exact Or.inl ha
      · exact Or.inr ⟨ha, hb⟩
  | case5 a l1 b l2 hn1 hn2 ih =>
    rw [ominus]; simp only [hn1, hn2, if_false]
    have s2 := List.pairwise_cons.1 h2
    rw [ih h1 s2.2]
    simp only [List.mem_cons, not_or]
    constructor
    · rintro ⟨ha, hb⟩
      refine ⟨ha, ?_, hb⟩
      rcases ha with ha | ha
      · omega
      · have := (List.pairwise_cons.1 h1).1 x ha; omega
    · rintro ⟨ha, _, hb⟩; exact ⟨ha, hb⟩

theorem ominus_sub (l1 l2 : List Int) : ∀ x ∈ (ominus l1 l2).1, x ∈ l1 := by
  induction l1, l2 using ominus.induct with
  | case1 l2 => simp [ominus]
  | case2 a l1 => simp [ominus]
  | case3 a l1 l2 ih =>
    rw [ominus]; simp only [if_true]; intro x hx; exact List.mem_cons_of_mem _ (ih x hx)
  | case4 a l1 b l2 hn h ih =>
    rw [ominus]; simp only [hn, h, if_false, if_true]
    intro x hx
    rcases List.mem_cons.1 hx with hx | hx
    · rw [hx]; exact List.mem_cons_self
    · exact List.mem_cons_of_mem _ (ih x hx)
  | case5 a l1 b l2 hn1 hn2 ih => rw [ominus]; simp only [hn1, hn2, if_false]; exact ih

theorem ominus_sorted (l1 l2 : List Int) (h1 : List.Pairwise (· < ·) l1) : List.Pairwise (· < ·) (ominus l1 l2).1 := by
  induction l1, l2 using ominus.induct with
  | case1 l2 => simp [ominus]
  | case2 a l1 => simpa [ominus] using h1
  | case3 a l1 l2 ih => rw [ominus]; simp only [if_true]; exact ih (List.pairwise_cons.1 h1).2
  | case4 a l1 b l2 hn h ih =>
    rw [ominus]; simp only [hn, h, if_false, if_true]
    have s1 := List.pairwise_cons.1 h1
    rw [List.pairwise_cons]
    exact ⟨fun y hy => s1.1 y (ominus_sub l1 _ y hy), ih s1.2⟩
  | case5 a l1 b l2 hn1 hn2 ih => rw [ominus]; simp only [hn1, hn2, if_false]; exact ih h1

/-- flag of `ominus`: nothing was removed -/
theorem ominus_flag (l1 l2 : List Int) (h1 : List.Pairwise (· < ·) l1) (h2 : List.Pairwise (· < ·) l2) :
    (ominus l1 l2).2 = true → ∀ x ∈ l1, x ∉ l2 := by
  induction l1, l2 using ominus.induct with
  | case1 l2 => simp
  | case2 a l1 => simp
  | case3 a l1 l2 ih => rw [ominus]; simp only [if_true]; intro hf; exact absurd hf (by simp)
  | case4 a l1 b l2 hn h ih =>
    rw [ominus]; simp only [hn, h, if_false, if_true]
    intro hf x hx
    have s1 := List.pairwise_cons.1 h1
    rcases List.mem_cons.1 hx with hx | hx
    · intro hm
      rcases List.mem_cons.1 hm with hm | hm
      · omega
      · have := (List.pairwise_cons.1 h2).1 x hm; omega
    · exact ih s1.2 h2 hf x hx
  | case5 a l1 b l2 hn1 hn2 ih =>
    rw [ominus]; simp only [hn1, hn2, if_false]
    intro hf x hx
    have s2 := List.pairwise_cons.1 h2
    have := ih h1 s2.2 hf x hx
    intro hm
    rcases List.mem_cons.1 hm with hm | hm
    · rcases List.mem_cons.1 hx with hx | hx
      · omega
      · have := (List.pairwise_cons.1 h1).1 x hx; omega
    · exact this hm

/-! ### the set representation -/
namespace FSI

/-- representation invariant: strictly increasing symmetric representatives -/
def Repr (s : FSI) : Prop := List.Pairwise (· < ·) s.elems ∧ ∀ x ∈ s.elems, InRange s.M x

/-- `x` (a representative) belongs to the denoted subset of Z_M -/
def Has (s : FSI) (x : Int) : Prop := if s.inverted then x ∉ s.elems else x ∈ s.elems

theorem mem_univ (M : Nat) (x : Int) : x ∈ univ M ↔ InRange M x := by
  unfold univ InRange
  simp only [List.mem_map, List.mem_range]
  constructor
  · rintro ⟨i, hi, rfl⟩
    unfold lb ub; omega
  · rintro ⟨h1, h2⟩
    refine ⟨(x - lb M).toNat, ?_, ?_⟩ <;> unfold lb ub at * <;> omega

theorem sorted_univ (M : Nat) : List.Pairwise (· < ·) (univ M) := by
  unfold univ
  rw [List.pairwise_map]
  have := List.pairwise_lt_range (n := M)
  exact this.imp (fun h => by omega)

theorem invert_spec (s : FSI) :
    (invert s).Repr ∧ (invert s).M = s.M ∧ ∀ x, InRange s.M x → ((invert s).Has x ↔ s.Has x) := by
  refine ⟨⟨?_, ?_⟩, rfl, ?_⟩
  · exact (sorted_univ s.M).filter _
  · intro x hx
    have := (List.mem_filter.1 hx).1
    exact (mem_univ _ _).1 this
  · intro x hx
    unfold Has invert
    simp only [List.mem_filter, mem_univ, hx, true_and, Bool.not_eq_true', List.contains_eq_mem,
      decide_eq_false_iff_not]
    cases s.inverted <;> simp

/-- The intersection: representation invariant, exact set semantics, and meaning of the status bits. -/
theorem C14_intersect (big : Bool) (a b : FSI) (hM : a.M = b.M) (ra : a.Repr) (rb : b.Repr) :
    let r := intersectInternal big a b
    r.1.M = a.M ∧ r.1.Repr ∧ (∀ x, InRange a.M x → (r.1.Has x ↔ a.Has x ∧ b.Has x)) ∧
    (r.2.1 = true → ∀ x, InRange a.M x → a.Has x → b.Has x) ∧
    (r.2.2 = true → ∀ x, InRange a.M x → b.Has x → a.Has x) := by
  obtain ⟨sa, ia⟩ := ra
  obtain ⟨sb, ib⟩ := rb
  obtain ⟨⟨sia, iia⟩, _, hia⟩ := invert_spec a
  obtain ⟨⟨sib, iib⟩, _, hib⟩ := invert_spec b
  have ib' : ∀ x ∈ b.elems, InRange a.M x := fun x hx => hM ▸ ib x hx
  have iib' : ∀ x ∈ (invert b).elems, InRange a.M x := fun x hx => hM ▸ iib x hx
  have hib' : ∀ x, InRange a.M x → ((invert b).Has x ↔ b.Has x) := fun x hx => hib x (hM ▸ hx)
  unfold intersectInternal
  cases hai : a.inverted <;> cases hbi : b.inverted <;>
    simp only [Bool.false_eq_true, Bool.and_false, Bool.and_true, Bool.and_self, Bool.not_false, Bool.not_true, if_false, if_true]
  · -- listed, listed
    refine ⟨trivial, ⟨ointersect_sorted _ _ sa, fun x hx => ia x (ointersect_sub _ _ x hx)⟩, ?_, ?_, ?_⟩
    · intro x _; simp only [Has, hai, hbi, Bool.false_eq_true, if_false]; exact ointersect_mem _ _ sa sb x
    · intro hf x _; simp only [Has, hai, hbi, Bool.false_eq_true, if_false]; exact (ointersect_flags _ _).1 hf x
    · intro hf x _; simp only [Has, hai, hbi, Bool.false_eq_true, if_false]; exact (ointersect_flags _ _).2 hf x
  · -- listed, complemented
    split_ifs with hsz
    · have hmem : ∀ x, InRange a.M x → (x ∈ (invert b).elems ↔ x ∉ b.elems) := by
        intro x hx
        have := hib' x hx
        simpa [Has, invert, hbi] using this
      refine ⟨rfl, ⟨ointersect_sorted _ _ sa, fun x hx => ia x (ointersect_sub _ _ x hx)⟩, ?_, ?_, ?_⟩
      · intro x hx; simp only [Has, hai, hbi, Bool.false_eq_true, if_false, if_true]
        rw [ointersect_mem _ _ sa sib, hmem x hx]
      · intro hf x hx; simp only [Has, hai, hbi, Bool.false_eq_true, if_false, if_true]
        intro h; exact (hmem x hx).1 ((ointersect_flags _ _).1 hf x h)
      · intro hf x hx; simp only [Has, hai, hbi, Bool.false_eq_true, if_false, if_true]
        intro h; exact (ointersect_flags _ _).2 hf x ((hmem x hx).2 h)
    · refine ⟨rfl, ⟨ominus_sorted _ _ sa, fun x hx => ia x (ominus_sub _ _ x hx)⟩, ?_, ?_, ?_⟩
      · intro x _; simp only [Has, hai, hbi, Bool.false_eq_true, if_false, if_true]; exact ominus_mem _ _ sa sb x
      · intro hf x _; simp only [Has, hai, hbi, Bool.false_eq_true, if_false, if_true]; exact ominus_flag _ _ sa sb hf x
      · intro hf; exact absurd hf (by simp)
  · -- complemented, listed
    split_ifs with hsz
    · have hmem : ∀ x, InRange a.M x → (x ∈ (invert a).elems ↔ x ∉ a.elems) := by
        intro x hx
        have := hia x hx
        simpa [Has, invert, hai] using this
      refine ⟨rfl, ⟨ointersect_sorted _ _ sb, fun x hx => ib' x (ointersect_sub _ _ x hx)⟩, ?_, ?_, ?_⟩
      · intro x hx; simp only [Has, hai, hbi, Bool.false_eq_true, if_false, if_true]
        rw [ointersect_mem _ _ sb sia, hmem x hx]; tauto
      · intro hf x hx; simp only [Has, hai, hbi, Bool.false_eq_true, if_false, if_true]
        intro h; exact (ointersect_flags _ _).2 hf x ((hmem x hx).2 h)
      · intro hf x hx; simp only [Has, hai, hbi, Bool.false_eq_true, if_false, if_true]
        intro h; exact (hmem x hx).1 ((ointersect_flags _ _).1 hf x h)
    · refine ⟨rfl, ⟨ominus_sorted _ _ sb, fun x hx => ib' x (ominus_sub _ _ x hx)⟩, ?_, ?_, ?_⟩
      · intro x _; simp only [Has, hai, hbi, Bool.false_eq_true, if_false, if_true]
        rw [ominus_mem _ _ sb sa]; tauto
      · intro hf; exact absurd hf (by simp)
      · intro hf x _; simp only [Has, hai, hbi, Bool.false_eq_true, if_false, if_true]; exact ominus_flag _ _ sb sa hf x
  · -- complemented, complemented
    refine ⟨trivial, ⟨ounion_sorted _ _ sa sb, ?_⟩, ?_, ?_, ?_⟩
    · intro x hx
      rcases (ounion_mem _ _ x).1 hx with h | h
      · exact ia x h
      · exact ib' x h
    · intro x _; simp only [Has, hai, hbi, if_true]; rw [ounion_mem]; tauto
    · intro hf x _; simp only [Has, hai, hbi, if_true]
      intro h hb; exact h ((ounion_flags _ _).1 hf x hb)
    · intro hf x _; simp only [Has, hai, hbi, if_true]
      intro h ha; exact h ((ounion_flags _ _).2 hf x ha)

/-- The union: representation invariant, exact set semantics, and meaning of the status bits. -/
theorem C14_union (big : Bool) (a b : FSI) (hM : a.M = b.M) (ra : a.Repr) (rb : b.Repr) :
    let r := unionInternal big a b
    r.1.M = a.M ∧ r.1.Repr ∧ (∀ x, InRange a.M x → (r.1.Has x ↔ a.Has x ∨ b.Has x)) ∧
    (r.2.1 = true → ∀ x, InRange a.M x → b.Has x → a.Has x) ∧
    (r.2.2 = true → ∀ x, InRange a.M x → a.Has x → b.Has x) := by
  obtain ⟨sa, ia⟩ := ra
  obtain ⟨sb, ib⟩ := rb
  obtain ⟨⟨sia, iia⟩, _, hia⟩ := invert_spec a
  obtain ⟨⟨sib, iib⟩, _, hib⟩ := invert_spec b
  have ib' : ∀ x ∈ b.elems, InRange a.M x := fun x hx => hM ▸ ib x hx
  have iib' : ∀ x ∈ (invert b).elems, InRange a.M x := fun x hx => hM ▸ iib x hx
  have hib' : ∀ x, InRange a.M x → ((invert b).Has x ↔ b.Has x) := fun x hx => hib x (hM ▸ hx)
  unfold unionInternal
  cases hai : a.inverted <;> cases hbi : b.inverted <;>
    simp only [Bool.false_eq_true, Bool.and_false, Bool.and_true, Bool.and_self, Bool.not_false, Bool.not_true, if_false, if_true]
  · -- listed, listed
    refine ⟨trivial, ⟨ounion_sorted _ _ sa sb, ?_⟩, ?_, ?_, ?_⟩
    · intro x hx
      rcases (ounion_mem _ _ x).1 hx with h | h
      · exact ia x h
      · exact ib' x h
    · intro x _; simp only [Has, hai, hbi, Bool.false_eq_true, if_false]; exact ounion_mem _ _ x
    · intro hf x _; simp only [Has, hai, hbi, Bool.false_eq_true, if_false]; exact (ounion_flags _ _).1 hf x
    · intro hf x _; simp only [Has, hai, hbi, Bool.false_eq_true, if_false]; exact (ounion_flags _ _).2 hf x
  · -- listed, complemented
    split_ifs with hsz
    · have hmem : ∀ x, InRange a.M x → (x ∈ (invert b).elems ↔ x ∉ b.elems) := by
        intro x hx
        have := hib' x hx
        simpa [Has, invert, hbi] using this
      refine ⟨rfl, ⟨ounion_sorted _ _ sib sa, ?_⟩, ?_, ?_, ?_⟩
      · intro x hx
        rcases (ounion_mem _ _ x).1 hx with h | h
        · exact iib' x h
        · exact ia x h
      · intro x hx; simp only [Has, hai, hbi, Bool.false_eq_true, if_false, if_true]
        rw [ounion_mem, hmem x hx]; tauto
      · intro hf x hx; simp only [Has, hai, hbi, Bool.false_eq_true, if_false, if_true]
        intro h; exact (ounion_flags _ _).2 hf x ((hmem x hx).2 h)
      · intro hf x hx; simp only [Has, hai, hbi, Bool.false_eq_true, if_false, if_true]
        intro h; exact (hmem x hx).1 ((ounion_flags _ _).1 hf x h)
    · refine ⟨rfl, ⟨ominus_sorted _ _ sb, fun x hx => ib' x (ominus_sub _ _ x hx)⟩, ?_, ?_, ?_⟩
      · intro x _; simp only [Has, hai, hbi, Bool.false_eq_true, if_false, if_true]
        rw [ominus_mem _ _ sb sa]; tauto
      · intro hf; exact absurd hf (by simp)
      · intro hf x _; simp only [Has, hai, hbi, Bool.false_eq_true, if_false, if_true]
        intro ha hb; exact ominus_flag _ _ sb sa hf x hb ha
  · -- complemented, listed
    split_ifs with hsz
    · have hmem : ∀ x, InRange a.M x → (x ∈ (invert a).elems ↔ x ∉ a.elems) := by
        intro x hx
        have := hia x hx
        simpa [Has, invert, hai] using this
      refine ⟨rfl, ⟨ounion_sorted _ _ sia sb, ?_⟩, ?_, ?_, ?_⟩
      · intro x hx
        rcases (ounion_mem _ _ x).1 hx with h | h
        · exact iia x h
        · exact ib' x h
      · intro x hx; simp only [Has, hai, hbi, Bool.false_eq_true, if_false, if_true]
        rw [ounion_mem, hmem x hx]
      · intro hf x hx; simp only [Has, hai, hbi, Bool.false_eq_true, if_false, if_true]
        intro h; exact (hmem x hx).1 ((ounion_flags _ _).1 hf x h)
      · intro hf x hx; simp only [Has, hai, hbi, Bool.false_eq_true, if_false, if_true]
        intro h; exact (ounion_flags _ _).2 hf x ((hmem x hx).2 h)
    · refine ⟨rfl, ⟨ominus_sorted _ _ sa, fun x hx => ia x (ominus_sub _ _ x hx)⟩, ?_, ?_, ?_⟩
      · intro x _; simp only [Has, hai, hbi, Bool.false_eq_true, if_false, if_true]
        rw [ominus_mem _ _ sa sb]; tauto
      · intro hf x _; simp only [Has, hai, hbi, Bool.false_eq_true, if_false, if_true]
        intro hb ha; exact ominus_flag _ _ sa sb hf x ha hb
      · intro hf; exact absurd hf (by simp)
  · -- complemented, complemented
    refine ⟨trivial, ⟨ointersect_sorted _ _ sa, fun x hx => ia x (ointersect_sub _ _ x hx)⟩, ?_, ?_, ?_⟩
    · intro x _; simp only [Has, hai, hbi, if_true]; rw [ointersect_mem _ _ sa sb]; tauto
    · intro hf x _; simp only [Has, hai, hbi, if_true]
      intro h ha; exact h ((ointersect_flags _ _).1 hf x ha)
    · intro hf x _; simp only [Has, hai, hbi, if_true]
      intro h hb; exact h ((ointersect_flags _ _).2 hf x hb)

/-- external status of intersection: EMPTY exactly for an empty result, S1/S2 only if the result denotes
    the first/second operand. -/
theorem C14_intersect_status (big : Bool) (a b : FSI) (hM : a.M = b.M) (ra : a.Repr) (rb : b.Repr) :
    ((intersect big a b).2 = .empty ↔ (intersect big a b).1.isEmpty = true) ∧
    ((intersect big a b).2 = .s1 → ∀ x, InRange a.M x → ((intersect big a b).1.Has x ↔ a.Has x)) ∧
    ((intersect big a b).2 = .s2 → ∀ x, InRange a.M x → ((intersect big a b).1.Has x ↔ b.Has x)) := by
  obtain ⟨_, _, hsem, h1, h2⟩ := C14_intersect big a b hM ra rb
  unfold intersect withStatus
  simp only
  refine ⟨?_, ?_, ?_⟩
  · by_cases he : (intersectInternal big a b).1.isEmpty = true
    · simp [he]
    · simp only [he, Bool.false_eq_true, if_false, iff_false]
      unfold statusExt; split_ifs <;> simp
  · intro hs x hx
    by_cases he : (intersectInternal big a b).1.isEmpty = true
    · simp [he] at hs
    · simp only [he, Bool.false_eq_true, if_false] at hs
      have hf : (intersectInternal big a b).2.1 = true := by
        unfold statusExt at hs; split_ifs at hs with h; exact h
      rw [hsem x hx]; exact ⟨fun h => h.1, fun h => ⟨h, h1 hf x hx h⟩⟩
  · intro hs x hx
    by_cases he : (intersectInternal big a b).1.isEmpty = true
    · simp [he] at hs
    · simp only [he, Bool.false_eq_true, if_false] at hs
      have hf : (intersectInternal big a b).2.2 = true := by
        unfold statusExt at hs; split_ifs at hs with h h'; exact h'
      rw [hsem x hx]; exact ⟨fun h => h.2, fun h => ⟨h2 hf x hx h, h⟩⟩

theorem C14_union_status (big : Bool) (a b : FSI) (hM : a.M = b.M) (ra : a.Repr) (rb : b.Repr) :
    ((union big a b).2 = .empty ↔ (union big a b).1.isEmpty = true) ∧
    ((union big a b).2 = .s1 → ∀ x, InRange a.M x → ((union big a b).1.Has x ↔ a.Has x)) ∧
    ((union big a b).2 = .s2 → ∀ x, InRange a.M x → ((union big a b).1.Has x ↔ b.Has x)) := by
  obtain ⟨_, _, hsem, h1, h2⟩ := C14_union big a b hM ra rb
  unfold union withStatus
  simp only
  refine ⟨?_, ?_, ?_⟩
  · by_cases he : (unionInternal big a b).1.isEmpty = true
    · simp [he]
    · simp only [he, Bool.false_eq_true, if_false, iff_false]
      unfold statusExt; split_ifs <;> simp
  · intro hs x hx
    by_cases he : (unionInternal big a b).1.isEmpty = true
    · simp [he] at hs
    · simp only [he, Bool.false_eq_true, if_false] at hs
      have hf : (unionInternal big a b).2.1 = true := by
        unfold statusExt at hs; split_ifs at hs with h; exact h
      rw [hsem x hx]; exact ⟨fun h => h.elim id (h1 hf x hx), Or.inl⟩
  · intro hs x hx
    by_cases he : (unionInternal big a b).1.isEmpty = true
    · simp [he] at hs
    · simp only [he, Bool.false_eq_true, if_false] at hs
      have hf : (unionInternal big a b).2.2 = true := by
        unfold statusExt at hs; split_ifs at hs with h h'; exact h'
      rw [hsem x hx]; exact ⟨fun h => h.elim (h2 hf x hx) id, Or.inr⟩

/-- a strictly increasing list inside the range has at most M entries, and exactly M iff it is the whole range -/
theorem card_range (M : Nat) (l : List Int) (hs : List.Pairwise (· < ·) l) (hr : ∀ x ∈ l, InRange M x) :
    l.length ≤ M ∧ (l.length = M ↔ ∀ x, InRange M x → x ∈ l) := by
  have hnd : l.Nodup := hs.imp (fun h => ne_of_lt h)
  have hcard : l.toFinset.card = l.length := List.toFinset_card_of_nodup hnd
  have hsub : l.toFinset ⊆ Finset.Icc (lb M) (ub M) := by
    intro x hx
    have := hr x (List.mem_toFinset.1 hx)
    exact Finset.mem_Icc.2 this
  have hIcc : (Finset.Icc (lb M) (ub M)).card = M := by
    rw [Int.card_Icc]; unfold lb ub; omega
  have hle := Finset.card_le_card hsub
  refine ⟨by omega, ?_, ?_⟩
  · intro he x hx
    have : l.toFinset = Finset.Icc (lb M) (ub M) := Finset.eq_of_subset_of_card_le hsub (by omega)
    have hx' : x ∈ Finset.Icc (lb M) (ub M) := Finset.mem_Icc.2 hx
    rw [← this] at hx'; exact List.mem_toFinset.1 hx'
  · intro hall
    have : Finset.Icc (lb M) (ub M) ⊆ l.toFinset := by
      intro x hx; exact List.mem_toFinset.2 (hall x (Finset.mem_Icc.1 hx))
    have := Finset.card_le_card this
    omega

/-- emptiness, fullness and membership agree with the denoted set -/
theorem C14_observers (s : FSI) (rs : s.Repr) (v : Int) :
    (s.isEmpty = true ↔ ∀ x, InRange s.M x → ¬ s.Has x) ∧
    (s.isFull = true ↔ ∀ x, InRange s.M x → s.Has x) ∧
    (s.contains v = true ↔ s.Has (normalizeM s.M v)) := by
  obtain ⟨hs, hr⟩ := rs
  obtain ⟨_, hc⟩ := card_range s.M s.elems hs hr
  have hnil : s.elems.length = 0 ↔ ∀ x, InRange s.M x → x ∉ s.elems := by
    constructor
    · intro h x _; rw [List.length_eq_zero_iff.1 h]; simp
    · intro h
      cases hl : s.elems with
      | nil => rfl
      | cons a l => exact absurd (by rw [hl]; exact List.mem_cons_self) (h a (hr a (by rw [hl]; exact List.mem_cons_self)))
  unfold isEmpty isFull contains Has
  cases hi : s.inverted <;> simp only [Bool.false_eq_true, if_false, if_true, decide_eq_true_eq, not_not]
  · exact ⟨hnil, hc, by simp⟩
  · exact ⟨hc, hnil, by simp⟩

/-- the constructor sorts, de-duplicates and normalises -/
theorem insertSorted_spec (x : Int) (l : List Int) (hs : List.Pairwise (· < ·) l) :
    List.Pairwise (· < ·) (insertSorted x l) ∧ ∀ y, y ∈ insertSorted x l ↔ y = x ∨ y ∈ l := by
  induction l with
  | nil => simp [insertSorted]
  | cons a l ih =>
    have s1 := List.pairwise_cons.1 hs
    obtain ⟨i1, i2⟩ := ih s1.2
    unfold insertSorted
    split_ifs with h1 h2
    · refine ⟨?_, fun y => by simp⟩
      rw [List.pairwise_cons]
      refine ⟨?_, hs⟩
      intro y hy
      rcases List.mem_cons.1 hy with hy | hy
      · omega
      · have := s1.1 y hy; omega
    · subst h2; exact ⟨hs, fun y => by simp⟩
    · refine ⟨?_, fun y => by simp only [List.mem_cons, i2]; tauto⟩
      rw [List.pairwise_cons]
      refine ⟨?_, i1⟩
      intro y hy
      rcases (i2 y).1 hy with hy | hy
      · omega
      · exact s1.1 y hy

theorem C14_ofList (M : Nat) (hM : 2 ≤ M) (l : List Int) (inv : Bool) :
    (ofList M l inv).Repr ∧ ∀ y, y ∈ (ofList M l inv).elems ↔ ∃ x ∈ l, normalizeM M x = y := by
  unfold ofList Repr
  simp only
  induction l with
  | nil => simp
  | cons a l ih =>
    obtain ⟨⟨i1, i2⟩, i3⟩ := ih
    simp only [List.map_cons, List.foldr_cons]
    obtain ⟨j1, j2⟩ := insertSorted_spec (normalizeM M a) _ i1
    refine ⟨⟨j1, ?_⟩, ?_⟩
    · intro x hx
      rcases (j2 x).1 hx with h | h
      · rw [h]; exact (C17_normalize M hM a).1
      · exact i2 x h
    · intro y
      rw [j2 y, i3 y]
      simp only [List.mem_cons, exists_eq_or_imp]
      constructor
      · rintro (h | h)
        · exact Or.inl h.symm
        · exact Or.inr h
      · rintro (h | h)
        · exact Or.inl h.symm
        · exact Or.inr h

/-- value picking on a complemented set returns a representative outside the excluded list
    (`_partial`: that the walk 0, 1, -1, 2, … stays inside the range for a non-empty set is validated by the
    correspondence runs, not proved). -/
theorem C14_pick_partial (s : FSI) (v : Int) (h : pickInverted s = some v) : v ∉ s.elems := by
  unfold pickInverted at h
  split_ifs at h with h0
  · injection h with h; subst h; simpa using h0
  · have : ∀ (fuel : Nat) (w : Int), pickWalk s.elems fuel w = some v → v ∉ s.elems := by
      intro fuel
      induction fuel with
      | zero => intro w hw; simp [pickWalk] at hw
      | succ f ih =>
        intro w hw
        unfold pickWalk at hw
        simp only at hw
        split_ifs at hw with h1 h2
        · injection hw with hw; subst hw; simpa using h1
        · injection hw with hw; subst hw; simpa using h2
        · exact ih _ hw
    exact this _ _ h

/-! non-vacuity -/
example : (⟨7, [-3, 0, 2], false⟩ : FSI).Repr ∧ (⟨7, [1], true⟩ : FSI).Repr := by
  unfold Repr InRange lb ub; simp

end FSI
end LP
