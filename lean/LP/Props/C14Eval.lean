/-
  C14 — the judge of the finite-field checks evaluates exactly: the model's Horner evaluation modulo p is the evaluation of
  the denoted polynomial of (Z/p)[X] (`C14_eval_spec`), so "the model's value is 0" is "the residue is a root"
  (`C14_eval_zero_iff`), for every modulus p ≥ 1 and every list of integer coefficients.
-/
import LP.Model.QPoly
import Mathlib.Data.ZMod.Basic
import Mathlib.Algebra.Polynomial.Eval.Defs
import Mathlib.Algebra.Polynomial.Basic

namespace LP
namespace FPoly
open Polynomial

/-- the polynomial over Z/p denoted by a coefficient list -/
noncomputable def toPolyF (p : Nat) : FPoly → (ZMod p)[X]
  | [] => 0
  | c :: q => C ((c : Int) : ZMod p) + X * toPolyF p q

theorem C14_eval_spec (p : Nat) (q : FPoly) (x : Int) :
    ((FPoly.eval p q x : Int) : ZMod p) = Polynomial.eval ((x : Int) : ZMod p) (toPolyF p q) := by
  induction q with
  | nil => simp [FPoly.eval, toPolyF]
  | cons c q ih =>
    have : FPoly.eval p (c :: q) x = red p (c + x * FPoly.eval p q x) := rfl
    rw [this]
    unfold red toPolyF
    rw [ZMod.intCast_mod]
    push_cast
    rw [ih]
    simp [Polynomial.eval_add, Polynomial.eval_mul]

theorem eval_range (p : Nat) (hp : 0 < p) (q : FPoly) (x : Int) : 0 ≤ FPoly.eval p q x ∧ FPoly.eval p q x < p := by
  cases q with
  | nil => simp [FPoly.eval]; exact_mod_cast hp
  | cons c q =>
    have : FPoly.eval p (c :: q) x = red p (c + x * FPoly.eval p q x) := rfl
    rw [this]
    unfold red
    have hp' : (0 : Int) < p := by exact_mod_cast hp
    exact ⟨Int.emod_nonneg _ (by omega), Int.emod_lt_of_pos _ hp'⟩

/-- **the model's value is 0 exactly when the residue is a root of the denoted polynomial** -/
theorem C14_eval_zero_iff (p : Nat) (hp : 0 < p) (q : FPoly) (x : Int) :
    FPoly.eval p q x = 0 ↔ (toPolyF p q).IsRoot ((x : Int) : ZMod p) := by
  unfold Polynomial.IsRoot
  rw [← C14_eval_spec]
  obtain ⟨h0, h1⟩ := eval_range p hp q x
  constructor
  · intro h; rw [h]; simp
  · intro h
    have hd : (p : Int) ∣ FPoly.eval p q x := (ZMod.intCast_zmod_eq_zero_iff_dvd _ p).1 h
    obtain ⟨k, hk⟩ := hd
    have hp' : (0 : Int) < p := by exact_mod_cast hp
    have : k = 0 := by
      rcases lt_trichotomy k 0 with hk0 | hk0 | hk0
      · have : (p : Int) * k < 0 := Int.mul_neg_of_pos_of_neg hp' hk0
        omega
      · exact hk0
      · have : (p : Int) * k ≥ p * 1 := Int.mul_le_mul_of_nonneg_left (by omega) (by omega)
        omega
    rw [hk, this]; simp

end FPoly
end LP
