import LP.Props.C17
#print axioms LP.C17_placeholder
