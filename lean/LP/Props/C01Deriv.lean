/-
  C01 — the derivative is exact: the model's partial derivative in a variable denotes `MvPolynomial.pderiv` of the denoted
  polynomial, over ℤ and over every Z_M (`C01_derivative`).
-/
import LP.Props.C01
import Mathlib.Algebra.MvPolynomial.PDeriv

namespace LP
open MvPolynomial

namespace Mono

/-- the exponent of `x` in the exponent vector is the degree the model reads off the list -/
theorem toFinsupp_apply (m : Mono) (x : Nat) : toFinsupp m x = degreeIn x m := by
  have gen : ∀ (l : List (Nat × Nat)) (a : Nat), l.foldl (fun acc p => acc + p.2) a = a + (l.map (·.2)).sum := by
    intro l
    induction l with
    | nil => intro a; simp
    | cons p l ih => intro a; rw [List.foldl_cons, ih]; simp [Nat.add_assoc]
  unfold degreeIn
  rw [gen, Nat.zero_add]
  induction m with
  | nil => simp [toFinsupp_nil]
  | cons p m ih =>
    rw [toFinsupp_cons, Finsupp.add_apply, ih, List.filter_cons]
    by_cases h : p.1 = x
    · simp [h]
    · simp [h]

theorem toFinsupp_without (m : Mono) (x : Nat) :
    toFinsupp m = Finsupp.single x (degreeIn x m) + toFinsupp (without x m) := by
  ext i
  rw [Finsupp.add_apply, toFinsupp_apply, toFinsupp_apply, Finsupp.single_apply]
  have gen : ∀ (l : List (Nat × Nat)) (a : Nat), l.foldl (fun acc p => acc + p.2) a = a + (l.map (·.2)).sum := by
    intro l
    induction l with
    | nil => intro a; simp
    | cons p l ih => intro a; rw [List.foldl_cons, ih]; simp [Nat.add_assoc]
  unfold degreeIn without
  rw [gen, gen, gen, Nat.zero_add, Nat.zero_add, Nat.zero_add, List.filter_filter]
  by_cases h : x = i
  · subst h
    rw [if_pos rfl]
    have : (m.filter (fun a => decide (a.1 ≠ x) && decide (a.1 = x))) = [] := by
      apply List.filter_eq_nil_iff.2
      intro a _
      by_cases e : a.1 = x <;> simp [e]
    simp
  · rw [if_neg h, Nat.zero_add]
    congr 2
    apply List.filter_congr
    intro a _
    by_cases e : a.1 = i
    · have hx : i ≠ x := fun h' => h h'.symm
      simp [e, hx]
    · simp [e]

end Mono

namespace MPoly
variable {R : Type} [CommRing R] {K : Ring} (hK : Compatible K R)
include hK

/-- **the partial derivative is exact** -/
theorem C01_derivative (p : MPoly) (x : Nat) : den R (derivative K p x) = pderiv x (den R p) := by
  unfold derivative
  rw [den_normalize hK]
  induction p with
  | nil => simp [den_nil]
  | cons t p ih =>
    rw [den_cons, map_add, ← ih, pderiv_monomial, List.filterMap_cons]
    have hd : Mono.toFinsupp t.1 x = Mono.degreeIn x t.1 := Mono.toFinsupp_apply t.1 x
    by_cases h0 : Mono.degreeIn x t.1 = 0
    · simp only [h0, if_true]
      rw [hd, h0]
      simp
    · simp only [h0, if_false]
      rw [den_cons]
      congr 1
      rw [hd]
      have hs : Mono.toFinsupp ((if Mono.degreeIn x t.1 = 1 then [] else [(x, Mono.degreeIn x t.1 - 1)]) ++ Mono.without x t.1) =
          Mono.toFinsupp t.1 - Finsupp.single x 1 := by
        rw [Mono.toFinsupp_append]
        have h1 : Mono.toFinsupp (if Mono.degreeIn x t.1 = 1 then [] else [(x, Mono.degreeIn x t.1 - 1)]) =
            Finsupp.single x (Mono.degreeIn x t.1 - 1) := by
          by_cases e : Mono.degreeIn x t.1 = 1
          · simp [e, Mono.toFinsupp_nil]
          · simp [e, Mono.toFinsupp_cons, Mono.toFinsupp_nil]
        rw [h1]
        conv_rhs => rw [Mono.toFinsupp_without t.1 x]
        ext i
        simp only [Finsupp.add_apply, Finsupp.tsub_apply, Finsupp.single_apply]
        by_cases e : x = i
        · subst e
          simp only [if_true]
          generalize Mono.degreeIn x t.1 = d at h0 ⊢
          generalize (Mono.toFinsupp (Mono.without x t.1)) x = w
          omega
        · simp only [e, if_false]; omega
      rw [hs]
      congr 1
      push_cast
      ring

end MPoly

/-- over ℤ and over every Z_M -/
theorem C01_derivative_Z (p : MPoly) (x : Nat) :
    MPoly.den ℤ (MPoly.derivative none p x) = pderiv x (MPoly.den ℤ p) :=
  MPoly.C01_derivative MPoly.compatible_Z p x

theorem C01_derivative_ZMod (M : Nat) (hM : 2 ≤ M) (p : MPoly) (x : Nat) :
    MPoly.den (ZMod M) (MPoly.derivative (some M) p x) = pderiv x (MPoly.den (ZMod M) p) :=
  MPoly.C01_derivative (MPoly.compatible_ZMod M hM) p x

end LP
