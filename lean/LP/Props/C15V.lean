import LP.Props.C15
import LP.Model.VInterval

/-! ### general value intervals (lp_interval_*) with finite end points refine the rational model -/
namespace LP
namespace VI

theorem cmp_fin_lt (a b : Rat) : EP.cmp (.fin a) (.fin b) < 0 ↔ a < b := by
  show cmpQ a b < 0 ↔ a < b
  unfold cmpQ; split_ifs with h1 h2 <;> simp_all
theorem cmp_fin_eq (a b : Rat) : EP.cmp (.fin a) (.fin b) = 0 ↔ a = b := by
  show cmpQ a b = 0 ↔ a = b
  unfold cmpQ; split_ifs with h1 h2 <;> simp_all
  · exact ne_of_lt h1
  · exact ne_of_gt h2
  · exact le_antisymm h2 h1

theorem endpointLt_fin (a b : Rat) (ao bo : Bool) :
    endpointLt (.fin a) ao (.fin b) bo = QI.endpointLt a ao b bo := by
  unfold endpointLt QI.endpointLt
  by_cases h : a = b
  · subst h; simp [(cmp_fin_eq a a).2 rfl]
  · have : ¬ EP.cmp (.fin a) (.fin b) = 0 := fun hc => h ((cmp_fin_eq a b).1 hc)
    simp only [this, h, if_false]
    by_cases hl : a < b
    · simp [hl, (cmp_fin_lt a b).2 hl]
    · have : ¬ EP.cmp (.fin a) (.fin b) < 0 := fun hc => hl ((cmp_fin_lt a b).1 hc)
      simp [hl, this]

def liftE (c : QI.EPt) : EPt := (.fin c.1, c.2)

theorem betterLo_lift (c d : QI.EPt) : betterLo (liftE c) (liftE d) = liftE (QI.betterLo c d) := by
  unfold betterLo QI.betterLo liftE
  simp only [endpointLt_fin]
  split_ifs <;> rfl
theorem betterHi_lift (c d : QI.EPt) : betterHi (liftE c) (liftE d) = liftE (QI.betterHi c d) := by
  unfold betterHi QI.betterHi liftE
  simp only [endpointLt_fin]
  split_ifs <;> rfl

theorem sgn_fin_zero (a : Rat) : EP.sgn (.fin a) = 0 ↔ a = 0 := by
  show sgnQ a = 0 ↔ a = 0
  unfold sgnQ; split_ifs with h1 h2 <;> simp_all
  · exact ne_of_gt h1
  · exact ne_of_lt h2
  · exact le_antisymm h1 h2

/-- on proper intervals with finite end points `lp_interval_mul` is the rational interval product, so
    `C15_mul` applies to it -/
theorem C15_vi_mul_general (I1 I2 : QI) (p1 : I1.isPoint = false) (p2 : I2.isPoint = false) :
    mul (ofQI I1) (ofQI I2) = ofQI (QI.mulGeneral I1 I2) := by
  unfold mul QI.mulGeneral ofQI
  simp only [p1, p2, Bool.false_eq_true, if_false]
  have e0 : ((EP.mul (.fin I1.a) (.fin I2.a), I1.aOpen || I2.aOpen) : EPt) = liftE (I1.a * I2.a, I1.aOpen || I2.aOpen) := rfl
  have e1 : ((EP.mul (.fin I1.a) (.fin I2.b), I1.aOpen || I2.bOpen) : EPt) = liftE (I1.a * I2.b, I1.aOpen || I2.bOpen) := rfl
  have e2 : ((EP.mul (.fin I1.b) (.fin I2.a), I1.bOpen || I2.aOpen) : EPt) = liftE (I1.b * I2.a, I1.bOpen || I2.aOpen) := rfl
  have e3 : ((EP.mul (.fin I1.b) (.fin I2.b), I1.bOpen || I2.bOpen) : EPt) = liftE (I1.b * I2.b, I1.bOpen || I2.bOpen) := rfl
  rw [e0, e1, e2, e3]
  simp only [List.foldl_cons, List.foldl_nil, betterLo_lift, betterHi_lift]
  simp only [closedZeroEnd, QI.closedZeroEnd, liftE, sgn_fin_zero, mk', QI.mk']
  rfl

end VI
end LP
