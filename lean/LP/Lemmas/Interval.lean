/-
  Helper lemmas for C15: bilinear extremum lemmas on a box and the characterisation of the
  end-point selection folds of `QI.mulGeneral`.
-/
import LP.Model.Interval
import Mathlib.Tactic.Ring
import Mathlib.Tactic.Linarith
import Mathlib.Tactic.Positivity
import Mathlib.Algebra.Order.Field.Basic

namespace LP
namespace IntervalLemmas

variable {α : Type*} [Field α] [LinearOrder α] [IsStrictOrderedRing α]

/-- for `y ∈ [c,d]` the product `p*y` is at least one of `p*c`, `p*d`. -/
theorem seg_lower (p c d y : α) (h1 : c ≤ y) (h2 : y ≤ d) : p * c ≤ p * y ∨ p * d ≤ p * y := by
  rcases le_total 0 p with hp | hp
  · left; exact mul_le_mul_of_nonneg_left h1 hp
  · right; exact mul_le_mul_of_nonpos_left h2 hp

/-- corner lemma: on a box, some corner product is below `x*y`. -/
theorem corner_lower (a b c d x y : α) (hax : a ≤ x) (hxb : x ≤ b) (hcy : c ≤ y) (hyd : y ≤ d) :
    a * c ≤ x * y ∨ a * d ≤ x * y ∨ b * c ≤ x * y ∨ b * d ≤ x * y := by
  rcases le_total 0 y with hy | hy
  · have h1 : a * y ≤ x * y := mul_le_mul_of_nonneg_right hax hy
    rcases seg_lower a c d y hcy hyd with h | h
    · left; exact h.trans h1
    · right; left; exact h.trans h1
  · have h1 : b * y ≤ x * y := mul_le_mul_of_nonpos_right hxb hy
    rcases seg_lower b c d y hcy hyd with h | h
    · right; right; left; exact h.trans h1
    · right; right; right; exact h.trans h1

/-- step A of the attainment lemma -/
theorem attain_x (a b c d x y : α) (hax : a ≤ x) (hxb : x ≤ b) (hcy : c ≤ y) (hyd : y ≤ d)
    (m1 : x * y ≤ a * c) (m2 : x * y ≤ a * d) (m3 : x * y ≤ b * c) (m4 : x * y ≤ b * d) :
    x = a ∨ x = b ∨ y = 0 := by
  by_contra hne
  push Not at hne
  obtain ⟨h1, h2, h3⟩ := hne
  have hax' : a < x := lt_of_le_of_ne hax (Ne.symm h1)
  have hxb' : x < b := lt_of_le_of_ne hxb h2
  rcases lt_or_gt_of_ne h3 with hy | hy
  · -- y < 0 : b*y < x*y
    have : b * y < x * y := mul_lt_mul_of_neg_right hxb' hy
    rcases seg_lower b c d y hcy hyd with h | h <;> linarith
  · have : a * y < x * y := mul_lt_mul_of_pos_right hax' hy
    rcases seg_lower a c d y hcy hyd with h | h <;> linarith

/-- attainment lemma: if `x*y` is below all four corner products of a proper box, then it is attained at a
    corner, or it is `0` with the zero coordinate sitting on an end of its interval. -/
theorem attain (a b c d x y : α) (hab : a < b) (hcd : c < d)
    (hax : a ≤ x) (hxb : x ≤ b) (hcy : c ≤ y) (hyd : y ≤ d)
    (m1 : x * y ≤ a * c) (m2 : x * y ≤ a * d) (m3 : x * y ≤ b * c) (m4 : x * y ≤ b * d) :
    ((x = a ∨ x = b) ∧ (y = c ∨ y = d)) ∨ (x = 0 ∧ (x = a ∨ x = b)) ∨ (y = 0 ∧ (y = c ∨ y = d)) := by
  have A := attain_x a b c d x y hax hxb hcy hyd m1 m2 m3 m4
  have B := attain_x c d a b y x hcy hyd hax hxb (by linarith [mul_comm x y, mul_comm c a])
    (by linarith [mul_comm x y, mul_comm c b]) (by linarith [mul_comm x y, mul_comm d a])
    (by linarith [mul_comm x y, mul_comm d b])
  by_cases hx : x = a ∨ x = b
  · by_cases hy : y = c ∨ y = d
    · exact Or.inl ⟨hx, hy⟩
    · have : x = 0 := by
        rcases B with h | h | h
        · exact absurd (Or.inl h) hy
        · exact absurd (Or.inr h) hy
        · exact h
      exact Or.inr (Or.inl ⟨this, hx⟩)
  · have hy0 : y = 0 := by
      rcases A with h | h | h
      · exact absurd (Or.inl h) hx
      · exact absurd (Or.inr h) hx
      · exact h
    by_cases hy : y = c ∨ y = d
    · exact Or.inr (Or.inr ⟨hy0, hy⟩)
    · exfalso
      have hx0 : x = 0 := by
        rcases B with h | h | h
        · exact absurd (Or.inl h) hy
        · exact absurd (Or.inr h) hy
        · exact h
      push Not at hx hy
      have ha : a < 0 := by rw [← hx0]; exact lt_of_le_of_ne hax (Ne.symm hx.1)
      have hd : 0 < d := by rw [← hy0]; exact lt_of_le_of_ne hyd hy.2
      have : a * d < 0 := mul_neg_of_neg_of_pos ha hd
      rw [hx0, hy0] at m2
      linarith

/-- upper versions, by negating the first coordinate -/
theorem corner_upper (a b c d x y : α) (hax : a ≤ x) (hxb : x ≤ b) (hcy : c ≤ y) (hyd : y ≤ d) :
    x * y ≤ a * c ∨ x * y ≤ a * d ∨ x * y ≤ b * c ∨ x * y ≤ b * d := by
  rcases corner_lower (-b) (-a) c d (-x) y (by linarith) (by linarith) hcy hyd with h | h | h | h
  · right; right; left; linarith
  · right; right; right; linarith
  · left; linarith
  · right; left; linarith

theorem attain_upper (a b c d x y : α) (hab : a < b) (hcd : c < d)
    (hax : a ≤ x) (hxb : x ≤ b) (hcy : c ≤ y) (hyd : y ≤ d)
    (m1 : a * c ≤ x * y) (m2 : a * d ≤ x * y) (m3 : b * c ≤ x * y) (m4 : b * d ≤ x * y) :
    ((x = a ∨ x = b) ∧ (y = c ∨ y = d)) ∨ (x = 0 ∧ (x = a ∨ x = b)) ∨ (y = 0 ∧ (y = c ∨ y = d)) := by
  have := attain (-b) (-a) c d (-x) y (by linarith) hcd (by linarith) (by linarith) hcy hyd
    (by linarith) (by linarith) (by linarith) (by linarith)
  rcases this with ⟨h1, h2⟩ | ⟨h1, h2⟩ | h
  · left; refine ⟨?_, h2⟩
    rcases h1 with h | h
    · right; linarith
    · left; linarith
  · right; left; refine ⟨by linarith, ?_⟩
    rcases h2 with h | h
    · right; linarith
    · left; linarith
  · right; right; exact h

end IntervalLemmas

/-! ### the end-point selection folds -/
namespace QI

theorem endpointLt_iff (a : Rat) (ao : Bool) (b : Rat) (bo : Bool) :
    endpointLt a ao b bo = true ↔ a < b ∨ (a = b ∧ ao = false ∧ bo = true) := by
  unfold endpointLt
  by_cases h : a = b
  · subst h; simp
  · simp [h]

theorem foldLo_spec (l : List EPt) (c0 : EPt) :
    let lo := l.foldl betterLo c0
    lo ∈ c0 :: l ∧ (∀ c ∈ c0 :: l, lo.1 ≤ c.1) ∧ (∀ c ∈ c0 :: l, c.1 = lo.1 → lo.2 = true → c.2 = true) := by
  induction l generalizing c0 with
  | nil => simp
  | cons c l ih =>
    simp only [List.foldl_cons]
    obtain ⟨i1, i2, i3⟩ := ih (betterLo c0 c)
    -- facts about one update step
    have step : (betterLo c0 c = c0 ∨ betterLo c0 c = c) ∧
        (betterLo c0 c).1 ≤ c0.1 ∧ (betterLo c0 c).1 ≤ c.1 ∧
        (c0.1 = (betterLo c0 c).1 → (betterLo c0 c).2 = true → c0.2 = true) ∧
        (c.1 = (betterLo c0 c).1 → (betterLo c0 c).2 = true → c.2 = true) := by
      unfold betterLo
      by_cases h : endpointLt c.1 c.2 c0.1 c0.2 = true
      · rw [if_pos h]
        rw [endpointLt_iff] at h
        refine ⟨Or.inr rfl, ?_, le_refl _, ?_, fun _ h => h⟩
        · rcases h with h | h
          · exact h.le
          · exact h.1.le
        · intro he ho
          rcases h with h | h
          · exact absurd he (ne_of_gt h)
          · rw [h.2.1] at ho; exact absurd ho (by simp)
      · rw [if_neg h]
        rw [endpointLt_iff] at h
        push Not at h
        refine ⟨Or.inl rfl, le_refl _, h.1, fun _ h => h, ?_⟩
        intro he ho
        have := h.2 he
        by_contra hc
        have hc' : c.2 = false := by simpa using hc
        exact this hc' ho
    obtain ⟨s0, s1, s2, s3, s4⟩ := step
    refine ⟨?_, ?_, ?_⟩
    · rcases List.mem_cons.1 i1 with h | h
      · rcases s0 with e | e
        · rw [h, e]; exact List.mem_cons_self
        · rw [h, e]; exact List.mem_cons_of_mem _ List.mem_cons_self
      · exact List.mem_cons_of_mem _ (List.mem_cons_of_mem _ h)
    · intro d hd
      rcases List.mem_cons.1 hd with h | h
      · subst h; exact (i2 _ List.mem_cons_self).trans s1
      · rcases List.mem_cons.1 h with h | h
        · subst h; exact (i2 _ List.mem_cons_self).trans s2
        · exact i2 _ (List.mem_cons_of_mem _ h)
    · intro d hd he ho
      have hb := i2 _ (List.mem_cons_self (a := betterLo c0 c) (l := l))
      rcases List.mem_cons.1 hd with h | h
      · subst h
        have e1 : (betterLo d c).1 = (List.foldl betterLo (betterLo d c) l).1 := le_antisymm (by rw [← he]; exact s1) hb
        exact s3 (by rw [e1, he]) (i3 _ List.mem_cons_self e1 ho)
      · rcases List.mem_cons.1 h with h | h
        · subst h
          have e1 : (betterLo c0 d).1 = (List.foldl betterLo (betterLo c0 d) l).1 := le_antisymm (by rw [← he]; exact s2) hb
          exact s4 (by rw [e1, he]) (i3 _ List.mem_cons_self e1 ho)
        · exact i3 _ (List.mem_cons_of_mem _ h) he ho

theorem foldHi_spec (l : List EPt) (c0 : EPt) :
    let hi := l.foldl betterHi c0
    hi ∈ c0 :: l ∧ (∀ c ∈ c0 :: l, c.1 ≤ hi.1) ∧ (∀ c ∈ c0 :: l, c.1 = hi.1 → hi.2 = true → c.2 = true) := by
  induction l generalizing c0 with
  | nil => simp
  | cons c l ih =>
    simp only [List.foldl_cons]
    obtain ⟨i1, i2, i3⟩ := ih (betterHi c0 c)
    have step : (betterHi c0 c = c0 ∨ betterHi c0 c = c) ∧
        c0.1 ≤ (betterHi c0 c).1 ∧ c.1 ≤ (betterHi c0 c).1 ∧
        (c0.1 = (betterHi c0 c).1 → (betterHi c0 c).2 = true → c0.2 = true) ∧
        (c.1 = (betterHi c0 c).1 → (betterHi c0 c).2 = true → c.2 = true) := by
      unfold betterHi
      by_cases h : endpointLt c0.1 (!c0.2) c.1 (!c.2) = true
      · rw [if_pos h]
        rw [endpointLt_iff] at h
        refine ⟨Or.inr rfl, ?_, le_refl _, ?_, fun _ h => h⟩
        · rcases h with h | h
          · exact h.le
          · exact h.1.le
        · intro he ho
          rcases h with h | h
          · exact absurd he (ne_of_lt h)
          · have : c.2 = false := by simpa using h.2.2
            rw [this] at ho; exact absurd ho (by simp)
      · rw [if_neg h]
        rw [endpointLt_iff] at h
        push Not at h
        refine ⟨Or.inl rfl, le_refl _, h.1, fun _ h => h, ?_⟩
        intro he ho
        have := h.2 he.symm
        by_contra hc
        have hc' : c.2 = false := by simpa using hc
        exact this (by simp [ho]) (by simp [hc'])
    obtain ⟨s0, s1, s2, s3, s4⟩ := step
    refine ⟨?_, ?_, ?_⟩
    · rcases List.mem_cons.1 i1 with h | h
      · rcases s0 with e | e
        · rw [h, e]; exact List.mem_cons_self
        · rw [h, e]; exact List.mem_cons_of_mem _ List.mem_cons_self
      · exact List.mem_cons_of_mem _ (List.mem_cons_of_mem _ h)
    · intro d hd
      rcases List.mem_cons.1 hd with h | h
      · subst h; exact s1.trans (i2 _ List.mem_cons_self)
      · rcases List.mem_cons.1 h with h | h
        · subst h; exact s2.trans (i2 _ List.mem_cons_self)
        · exact i2 _ (List.mem_cons_of_mem _ h)
    · intro d hd he ho
      have hb := i2 _ (List.mem_cons_self (a := betterHi c0 c) (l := l))
      rcases List.mem_cons.1 hd with h | h
      · subst h
        have e1 : (betterHi d c).1 = (List.foldl betterHi (betterHi d c) l).1 := le_antisymm hb (by rw [← he]; exact s1)
        exact s3 (by rw [e1, he]) (i3 _ List.mem_cons_self e1 ho)
      · rcases List.mem_cons.1 h with h | h
        · subst h
          have e1 : (betterHi c0 d).1 = (List.foldl betterHi (betterHi c0 d) l).1 := le_antisymm hb (by rw [← he]; exact s2)
          exact s4 (by rw [e1, he]) (i3 _ List.mem_cons_self e1 ho)
        · exact i3 _ (List.mem_cons_of_mem _ h) he ho

end QI
end LP
