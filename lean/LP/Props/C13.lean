import LP.Model.FSet
namespace LP
theorem C13_placeholder : True := trivial
end LP
