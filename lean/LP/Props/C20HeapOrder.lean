/-
  C20 — the binary heap mirror is a heap after every history, so it always pops a maximal element:
  `heapify_up` restores the heap order from "broken between one position and its parent" (`siftUp_ok`), `heapify_down`
  from "broken between one position and its children" (`siftDown_ok`); hence `push`, `pop` and `remove` keep the order
  (`C20_heap_push_ok`, `C20_heap_pop_ok`, `C20_heap_remove_ok`), every heap reachable from the empty one is in heap order
  (`C20_heap_reachable_ok`), and the element `peek` / `pop` return is at least every element of the array
  (`C20_heap_peek_max`, second half of `C20_heap_pop_ok`).  With `C20Heap` (the array is the multiset pushed minus popped
  or removed) this is the heap clause of the property for the mirror; the mirror is compared slot by slot with the C array.
-/
import LP.Props.C20Heap
namespace LP
namespace Heap

def at1 (a : Array Int) (p : Nat) : Int := a.getD (p - 1) 0

theorem getD_set! (a : Array Int) (i k : Nat) (v : Int) (hi : i < a.size) :
    (a.set! i v).getD k 0 = if k = i then v else a.getD k 0 := by
  simp only [Array.getD_eq_getD_getElem?, Array.set!_eq_setIfInBounds, Array.getElem?_setIfInBounds]
  by_cases e : i = k
  · subst e; simp [hi]
  · simp [e, Ne.symm e]

theorem at1_swap (a : Array Int) (q pos p : Nat) (hq1 : 1 ≤ q) (hp1 : 1 ≤ pos) (hq : q ≤ a.size) (hpos : pos ≤ a.size)
    (hp : 1 ≤ p) :
    at1 (swap a (q - 1) (pos - 1)) p = if p = pos then at1 a q else if p = q then at1 a pos else at1 a p := by
  unfold at1 swap
  dsimp only
  rw [getD_set! _ _ _ _ (by simp; omega), getD_set! _ _ _ _ (by omega)]
  by_cases e1 : p = pos
  · subst e1; simp
  · by_cases e2 : p = q
    · subst e2
      have : p - 1 ≠ pos - 1 := by omega
      simp [e1, this]
    · have h1 : p - 1 ≠ pos - 1 := by omega
      have h2 : p - 1 ≠ q - 1 := by omega
      simp [e1, e2, h1, h2]


/-- the heap order: every element is at most its parent (1-based positions) -/
def HeapOK (a : Array Int) : Prop := ∀ p, 2 ≤ p → p ≤ a.size → at1 a p ≤ at1 a (p / 2)

/-- heap order except between `pos` and its parent; the children of `pos` are at most the parent of `pos` -/
def UpInv (a : Array Int) (pos : Nat) : Prop :=
  (∀ p, 2 ≤ p → p ≤ a.size → p ≠ pos → at1 a p ≤ at1 a (p / 2)) ∧
  (2 ≤ pos → ∀ c, c ≤ a.size → c / 2 = pos → at1 a c ≤ at1 a (pos / 2))

theorem siftUp_ok : ∀ (fuel : Nat) (a : Array Int) (pos : Nat), pos ≤ fuel → pos ≤ a.size → UpInv a pos →
    HeapOK (siftUp a fuel pos) := by
  intro fuel
  induction fuel with
  | zero =>
    intro a pos hf _ hinv
    have : pos = 0 := by omega
    subst this
    intro p h2 hp
    exact hinv.1 p h2 hp (by omega)
  | succ f ih =>
    intro a pos hf hps hinv
    unfold siftUp
    by_cases hc : pos > 1 ∧ a.getD (pos / 2 - 1) 0 < a.getD (pos - 1) 0
    · rw [if_pos hc]
      obtain ⟨hp1, hlt⟩ := hc
      have hlt' : at1 a (pos / 2) < at1 a pos := hlt
      have hq1 : 1 ≤ pos / 2 := by omega
      have sw : ∀ p, 1 ≤ p → at1 (swap a (pos / 2 - 1) (pos - 1)) p =
          if p = pos then at1 a (pos / 2) else if p = pos / 2 then at1 a pos else at1 a p :=
        fun p hp => at1_swap a (pos / 2) pos p hq1 (by omega) (by omega) hps hp
      refine ih _ (pos / 2) (by omega) (by rw [swap_size]; omega) ⟨?_, ?_⟩
      · intro p h2 hp hne
        rw [swap_size] at hp
        rw [sw p (by omega), sw (p / 2) (by omega)]
        by_cases e1 : p = pos
        · subst e1
          rw [if_pos rfl, if_neg (by omega), if_pos rfl]
          omega
        · rw [if_neg e1, if_neg hne]
          by_cases e2 : p / 2 = pos
          · -- a child of pos: below the old parent of pos
            rw [if_pos e2]
            exact hinv.2 (by omega) p hp e2
          · rw [if_neg e2]
            by_cases e3 : p / 2 = pos / 2
            · -- a sibling of pos
              rw [if_pos e3]
              have := hinv.1 p h2 hp e1
              rw [e3] at this
              omega
            · rw [if_neg e3]
              exact hinv.1 p h2 hp e1
      · intro hq2 c hcs hcq
        rw [swap_size] at hcs
        have hR : at1 (swap a (pos / 2 - 1) (pos - 1)) (pos / 2 / 2) = at1 a (pos / 2 / 2) := by
          rw [sw _ (by omega), if_neg (by omega), if_neg (by omega)]
        have hpar : at1 a (pos / 2) ≤ at1 a (pos / 2 / 2) := hinv.1 (pos / 2) hq2 (by omega) (by omega)
        rw [hR, sw c (by omega)]
        by_cases e1 : c = pos
        · rw [if_pos e1]
          exact hpar
        · rw [if_neg e1, if_neg (by omega)]
          have := hinv.1 c (by omega) hcs e1
          rw [hcq] at this
          omega
    · rw [if_neg hc]
      intro p h2 hp
      by_cases e1 : p = pos
      · subst e1
        have : ¬ (a.getD (p / 2 - 1) 0 < a.getD (p - 1) 0) := fun h => hc ⟨by omega, h⟩
        exact Int.not_lt.1 this
      · exact hinv.1 p h2 hp e1


theorem at1_push (a : Array Int) (x : Int) (p : Nat) (h1 : 1 ≤ p) (hp : p ≤ a.size) : at1 (a.push x) p = at1 a p := by
  unfold at1
  simp only [Array.getD_eq_getD_getElem?, Array.getElem?_push]
  rw [if_neg (by omega)]

/-- **push keeps the heap order** -/
theorem C20_heap_push_ok (h : Heap) (x : Int) (hk : HeapOK h.data) : HeapOK (push h x).data := by
  unfold push
  refine siftUp_ok _ _ _ (by omega) (Nat.le_refl _) ⟨?_, ?_⟩
  · intro p h2 hp hne
    have hp' : p ≤ h.data.size := by simp at hp hne; omega
    rw [at1_push _ _ _ (by omega) hp', at1_push _ _ _ (by omega) (by omega)]
    exact hk p h2 hp'
  · intro h2 c hc hcs
    simp at hc hcs h2
    omega

/-- heap order except between `pos` and its children; the children of `pos` are at most the parent of `pos` -/
def DownInv (a : Array Int) (pos : Nat) : Prop :=
  (∀ p, 2 ≤ p → p ≤ a.size → p / 2 ≠ pos → at1 a p ≤ at1 a (p / 2)) ∧
  (2 ≤ pos → ∀ c, c ≤ a.size → c / 2 = pos → at1 a c ≤ at1 a (pos / 2))

theorem siftDown_ok : ∀ (fuel : Nat) (a : Array Int) (size pos : Nat), size = a.size → 1 ≤ pos → size < fuel + pos →
    DownInv a pos → HeapOK (siftDown a size fuel pos) := by
  intro fuel
  induction fuel with
  | zero =>
    intro a size pos hs h1 hf hinv
    unfold siftDown
    intro p h2 hp
    exact hinv.1 p h2 hp (by omega)
  | succ f ih =>
    intro a size pos hs h1 hf hinv
    unfold siftDown
    by_cases hch : 2 * pos ≤ size
    · rw [if_pos hch]
      dsimp only
      -- the larger child
      have key : ∀ o : Nat, ((o = 2 * pos + 1 ∧ 2 * pos + 1 ≤ size ∧ at1 a (2 * pos) < at1 a (2 * pos + 1)) ∨
            (o = 2 * pos ∧ (2 * pos + 1 ≤ size → at1 a (2 * pos + 1) ≤ at1 a (2 * pos)))) →
          HeapOK (if a.getD (pos - 1) 0 ≥ a.getD (o - 1) 0 then a else siftDown (swap a (pos - 1) (o - 1)) size f o) := by
        intro o ho
        have ho1 : 2 * pos ≤ o ∧ o ≤ 2 * pos + 1 ∧ o ≤ size := by omega
        by_cases hge : a.getD (pos - 1) 0 ≥ a.getD (o - 1) 0
        · rw [if_pos hge]
          have hge' : at1 a o ≤ at1 a pos := hge
          intro p h2 hp
          by_cases e : p / 2 = pos
          · rw [e]
            have hpc : p = 2 * pos ∨ p = 2 * pos + 1 := by omega
            rcases ho with ⟨e1, e2, e3⟩ | ⟨e1, e2⟩
            · rcases hpc with rfl | rfl
              · rw [e1] at hge'; omega
              · rw [e1] at hge'; exact hge'
            · rcases hpc with rfl | rfl
              · rw [e1] at hge'; exact hge'
              · rw [e1] at hge'
                have := e2 (by omega)
                omega
          · exact hinv.1 p h2 hp e
        · rw [if_neg hge]
          have hlt : at1 a pos < at1 a o := Int.not_le.1 hge
          have sw : ∀ p, 1 ≤ p → at1 (swap a (pos - 1) (o - 1)) p =
              if p = o then at1 a pos else if p = pos then at1 a o else at1 a p :=
            fun p hp => at1_swap a pos o p h1 (by omega) (by omega) (by omega) hp
          refine ih _ size o (by rw [swap_size]; exact hs) (by omega) (by omega) ⟨?_, ?_⟩
          · intro p h2 hp hne
            rw [swap_size] at hp
            rw [sw p (by omega), sw (p / 2) (by omega)]
            by_cases e1 : p = o
            · rw [if_pos e1, if_neg (by omega), if_pos (by omega)]
              omega
            · rw [if_neg e1, if_neg hne]
              by_cases e2 : p = pos
              · rw [if_pos e2, if_neg (by omega)]
                have := hinv.2 (by omega) o (by omega) (by omega)
                rw [e2]
                exact this
              · rw [if_neg e2]
                by_cases e3 : p / 2 = pos
                · rw [if_pos e3]
                  have hpc : p = 2 * pos ∨ p = 2 * pos + 1 := by omega
                  rcases ho with ⟨o1, o2, o3⟩ | ⟨o1, o2⟩
                  · have : p = 2 * pos := by omega
                    rw [this, o1]; omega
                  · have : p = 2 * pos + 1 := by omega
                    rw [this, o1]
                    exact o2 (by omega)
                · rw [if_neg e3]
                  exact hinv.1 p h2 hp e3
          · intro ho2 c hcs hco
            rw [swap_size] at hcs
            rw [sw c (by omega), sw (o / 2) (by omega)]
            rw [if_neg (by omega), if_neg (by omega), if_neg (by omega), if_pos (by omega)]
            have := hinv.1 c (by omega) hcs (by omega)
            rw [hco] at this
            exact this
      by_cases hr : 2 * pos + 1 ≤ size ∧ a.getD (2 * pos - 1) 0 < a.getD (2 * pos + 1 - 1) 0
      · rw [if_pos hr]
        exact key _ (Or.inl ⟨rfl, hr.1, hr.2⟩)
      · rw [if_neg hr]
        refine key _ (Or.inr ⟨rfl, fun h => ?_⟩)
        have : ¬ (a.getD (2 * pos - 1) 0 < a.getD (2 * pos + 1 - 1) 0) := fun h' => hr ⟨h, h'⟩
        exact Int.not_lt.1 this
    · rw [if_neg hch]
      intro p h2 hp
      exact hinv.1 p h2 hp (by omega)


/-- in a heap every element is at most the first one -/
theorem root_max (a : Array Int) (hk : HeapOK a) : ∀ p, 1 ≤ p → p ≤ a.size → at1 a p ≤ at1 a 1 := by
  intro p
  induction p using Nat.strongRecOn with
  | _ p ih =>
    intro h1 hp
    by_cases e : p = 1
    · subst e; exact Int.le_refl _
    · have h2 := hk p (by omega) hp
      have := ih (p / 2) (by omega) (by omega) (by omega)
      omega

theorem at1_pop (a : Array Int) (p : Nat) (h1 : 1 ≤ p) (hp : p ≤ a.size - 1) : at1 a.pop p = at1 a p := by
  unfold at1
  simp only [Array.getD_eq_getD_getElem?, Array.getElem?_pop]
  rw [if_pos (by omega)]

theorem at1_set0 (a : Array Int) (v : Int) (p : Nat) (h2 : 2 ≤ p) : at1 (a.set! 0 v) p = at1 a p := by
  unfold at1
  by_cases h0 : 0 < a.size
  · rw [getD_set! _ _ _ _ h0, if_neg (by omega)]
  · have : a.set! 0 v = a := by
      simp only [Array.set!_eq_setIfInBounds]
      exact Array.setIfInBounds_eq_of_size_le (by omega)
    rw [this]

/-- **pop keeps the heap order and returns a maximal element** -/
theorem C20_heap_pop_ok (h : Heap) (top : Int) (ht : h.data[0]? = some top) (hk : HeapOK h.data) :
    HeapOK (pop h).1.data ∧ ∀ k (hk : k < h.data.size), h.data[k] ≤ top := by
  constructor
  · unfold pop
    rw [ht]
    dsimp only
    refine siftDown_ok _ _ _ 1 rfl (Nat.le_refl _) (by omega) ⟨?_, ?_⟩
    · intro p h2 hp hne
      have hsz : ((h.data.set! 0 h.data.back!).pop).size = h.data.size - 1 := by simp
      rw [hsz] at hp
      have e1 : at1 ((h.data.set! 0 h.data.back!).pop) p = at1 h.data p := by
        rw [at1_pop _ _ (by omega) (by simp; omega), at1_set0 _ _ _ h2]
      have e2 : at1 ((h.data.set! 0 h.data.back!).pop) (p / 2) = at1 h.data (p / 2) := by
        rw [at1_pop _ _ (by omega) (by simp; omega), at1_set0 _ _ _ (by omega)]
      rw [e1, e2]
      exact hk p h2 (by omega)
    · intro h2; omega
  · intro k hks
    have h0 : 0 < h.data.size := by omega
    have htop : at1 h.data 1 = top := by
      unfold at1
      simp only [Array.getD_eq_getD_getElem?]
      rw [show 1 - 1 = 0 from rfl, ht]; rfl
    have := root_max h.data hk (k + 1) (by omega) (by omega)
    rw [htop] at this
    have e : at1 h.data (k + 1) = h.data[k] := by
      unfold at1
      simp [Array.getD_eq_getD_getElem?, hks]
    rw [e] at this
    exact this

/-- the empty heap is a heap -/
theorem C20_heap_empty_ok : HeapOK Heap.empty.data := by
  intro p h2 hp
  simp [Heap.empty] at hp
  omega

/-- **peek returns a maximal element** -/
theorem C20_heap_peek_max (h : Heap) (top : Int) (ht : peek h = some top) (hk : HeapOK h.data) :
    ∀ k (hk : k < h.data.size), h.data[k] ≤ top :=
  (C20_heap_pop_ok h top ht hk).2


theorem at1_drop (a : Array Int) (i : Nat) (v : Int) (hi : i < a.size) (p : Nat) (h1 : 1 ≤ p) (hp : p ≤ a.size - 1)
    (hne : p ≠ i + 1) : at1 ((a.set! i v).pop) p = at1 a p := by
  rw [at1_pop _ _ h1 (by simp; omega)]
  unfold at1
  rw [getD_set! _ _ _ _ hi, if_neg (by omega)]

theorem siftUp_id (a : Array Int) (f pos : Nat) (h : ¬ (pos > 1 ∧ at1 a (pos / 2) < at1 a pos)) :
    siftUp a (f + 1) pos = a := by
  unfold siftUp
  exact if_neg h

theorem heapOK_downInv (a : Array Int) (pos : Nat) (hk : HeapOK a) : DownInv a pos :=
  ⟨fun p h2 hp _ => hk p h2 hp, fun h2 c hc hcp => by
    have h3 := hk c (by omega) hc
    have h4 := hk pos h2 (by omega)
    rw [hcp] at h3
    omega⟩

/-- removing the element of slot `i` (overwrite with the last element, drop the last slot, sift up, sift down)
    keeps the heap order -/
theorem dropAt_ok (a : Array Int) (i : Nat) (hi : i < a.size) (hk : HeapOK a) :
    HeapOK (if i < ((a.set! i a.back!).pop).size then
      siftDown (siftUp ((a.set! i a.back!).pop) (((a.set! i a.back!).pop).size + 1) (i + 1)) ((a.set! i a.back!).pop).size
        (((a.set! i a.back!).pop).size + 1) (i + 1) else (a.set! i a.back!).pop) := by
  generalize hv : a.back! = v
  have hsz : ((a.set! i v).pop).size = a.size - 1 := by simp
  have E : ∀ p, 1 ≤ p → p ≤ a.size - 1 → p ≠ i + 1 → at1 ((a.set! i v).pop) p = at1 a p :=
    fun p h1 hp hne => at1_drop a i v hi p h1 hp hne
  by_cases hlt : i < ((a.set! i v).pop).size
  · rw [if_pos hlt]
    rw [hsz] at hlt
    generalize ha1 : (a.set! i v).pop = a1 at *
    by_cases hc : i + 1 > 1 ∧ at1 a1 ((i + 1) / 2) < at1 a1 (i + 1)
    · -- the new element is larger than its parent: it goes up, and the result is a heap
      have hup : HeapOK (siftUp a1 (a1.size + 1) (i + 1)) := by
        refine siftUp_ok _ _ _ (by omega) (by omega) ⟨?_, ?_⟩
        · intro p h2 hp hne
          rw [hsz] at hp
          rw [E p (by omega) hp hne]
          by_cases e : p / 2 = i + 1
          · rw [e]
            have h3 := hk p h2 (by omega)
            have h4 := hk (i + 1) (by omega) (by omega)
            rw [e] at h3
            have h5 := E ((i + 1) / 2) (by omega) (by omega) (by omega)
            omega
          · rw [E (p / 2) (by omega) (by omega) e]
            exact hk p h2 (by omega)
        · intro h2 c hcs hcp
          rw [hsz] at hcs
          rw [E c (by omega) hcs (by omega), E ((i + 1) / 2) (by omega) (by omega) (by omega)]
          have h3 := hk c (by omega) (by omega)
          have h4 := hk (i + 1) h2 (by omega)
          rw [hcp] at h3
          omega
      have hps := perm_size (siftUp_perm (a1.size + 1) a1 (i + 1) (by omega))
      exact siftDown_ok _ _ _ _ hps.symm (by omega) (by omega) (heapOK_downInv _ _ hup)
    · -- otherwise it stays or goes down
      rw [siftUp_id a1 a1.size (i + 1) hc]
      refine siftDown_ok _ _ _ _ rfl (by omega) (by omega) ⟨?_, ?_⟩
      · intro p h2 hp hne
        rw [hsz] at hp
        by_cases e : p = i + 1
        · subst e
          have : ¬ (at1 a1 ((i + 1) / 2) < at1 a1 (i + 1)) := fun h => hc ⟨by omega, h⟩
          exact Int.not_lt.1 this
        · rw [E p (by omega) hp e, E (p / 2) (by omega) (by omega) hne]
          exact hk p h2 (by omega)
      · intro h2 c hcs hcp
        rw [hsz] at hcs
        rw [E c (by omega) hcs (by omega), E ((i + 1) / 2) (by omega) (by omega) (by omega)]
        have h3 := hk c (by omega) (by omega)
        have h4 := hk (i + 1) h2 (by omega)
        rw [hcp] at h3
        omega
  · rw [if_neg hlt]
    rw [hsz] at hlt
    intro p h2 hp
    rw [hsz] at hp
    rw [E p (by omega) hp (by omega), E (p / 2) (by omega) (by omega) (by omega)]
    exact hk p h2 (by omega)

/-- the loop of `lp_polynomial_heap_remove` keeps the heap order -/
theorem removeLoop_ok (x : Int) : ∀ (fuel i : Nat) (a : Array Int) (cnt : Nat), HeapOK a →
    HeapOK (removeLoop x fuel i a cnt).1 := by
  intro fuel
  induction fuel with
  | zero => intro i a cnt hk; simpa [removeLoop] using hk
  | succ f ih =>
    intro i a cnt hk
    unfold removeLoop
    by_cases hi : i ≥ a.size
    · simpa [hi] using hk
    · simp only [if_neg hi]
      by_cases hx : a.getD i 0 = x
      · simp only [if_pos hx]
        exact ih _ _ _ (dropAt_ok a i (by omega) hk)
      · simp only [if_neg hx]
        exact ih _ _ _ hk

/-- **remove keeps the heap order** -/
theorem C20_heap_remove_ok (h : Heap) (x : Int) (hk : HeapOK h.data) : HeapOK (remove h x).1.data := by
  unfold remove
  exact removeLoop_ok x _ 0 h.data 0 hk


/-- the operations of a history -/
inductive HOp | push (x : Int) | pop | remove (x : Int)

def applyOp (h : Heap) : HOp → Heap
  | .push x => push h x
  | .pop => (pop h).1
  | .remove x => (remove h x).1

/-- **every heap reachable from the empty heap is in heap order**, so every `peek` / `pop` of every history returns a
    maximal element of the current contents (`C20_heap_pop_ok`, `C20_heap_peek_max`) -/
theorem C20_heap_reachable_ok (ops : List HOp) : HeapOK (ops.foldl applyOp Heap.empty).data := by
  suffices H : ∀ (ops : List HOp) (h : Heap), HeapOK h.data → HeapOK (ops.foldl applyOp h).data from
    H ops _ C20_heap_empty_ok
  intro ops
  induction ops with
  | nil => intro h hk; exact hk
  | cons op ops ih =>
    intro h hk
    refine ih _ ?_
    cases op with
    | push x => exact C20_heap_push_ok h x hk
    | pop =>
      show HeapOK (pop h).1.data
      cases ht : h.data[0]? with
      | none => rw [C20_heap_pop_empty h ht]; exact hk
      | some top => exact (C20_heap_pop_ok h top ht hk).1
    | remove x => exact C20_heap_remove_ok h x hk

end Heap
end LP
