/-
  C20 — `lp_polynomial_hash_set_intersect` keeps the invariants of the table and leaves exactly the elements to keep
  (`intersect_ok`): the sweep re-examines a slot after a removal, and the backward shift only moves elements towards the
  original hole (`shiftBack_src`), so whatever sits in front of the current slot was examined and kept (`removeAt_step`,
  `intersectLoop_ok`).  With `step_ok` this extends the refinement to every history of insertions, removals and
  intersections (`C20_hset_refines2`, `C20_hset_observers2`).
-/
import LP.Props.C20HSetRefine
namespace LP
namespace HSet

/-- the backward shift only moves elements towards the original hole: an element found at offset `t` from the original hole
    `i0` afterwards was at some offset `t' ≥ t` before -/
theorem shiftBack_src (i0 : Nat) : ∀ (fuel : Nat) (data : Array (Option Elem)) (a b : Nat),
    i0 < data.size → a ≤ b →
    (∃ m, 1 ≤ m ∧ m ≤ fuel ∧ b + m < data.size ∧ data.getD ((i0 + (b + m)) % data.size) none = none) →
    ∀ t y, t < data.size →
      (shiftBack data fuel ((i0 + a) % data.size) ((i0 + b) % data.size)).getD ((i0 + t) % data.size) none = some y →
      ∃ t', t ≤ t' ∧ t' < data.size ∧ data.getD ((i0 + t') % data.size) none = some y := by
  intro fuel
  induction fuel with
  | zero => intro data a b _ _ ⟨m, h1, h2, _, _⟩; omega
  | succ f ih =>
    intro data a b hi hab ⟨m, hm1, hmf, hmn, hmz⟩ t y ht hR
    have hn : 0 < data.size := by omega
    unfold shiftBack at hR
    dsimp only at hR
    have hj : ((i0 + b) % data.size + 1) % data.size = (i0 + (b + 1)) % data.size := by
      rw [Nat.mod_add_mod, Nat.add_assoc]
    rw [hj] at hR
    cases hx : data.getD ((i0 + (b + 1)) % data.size) none with
    | none =>
      rw [hx] at hR
      exact ⟨t, Nat.le_refl _, ht, hR⟩
    | some x =>
      rw [hx] at hR
      dsimp only at hR
      have hm2 : m ≠ 1 := by
        intro e; subst e
        rw [hx] at hmz; exact absurd hmz (by simp)
      have hjn : (i0 + (b + 1)) % data.size < data.size := Nat.mod_lt _ hn
      have hhn : (i0 + a) % data.size < data.size := Nat.mod_lt _ hn
      split at hR
      · -- the element moves into the hole
        have hsz1 : (data.set! ((i0 + a) % data.size) (some x)).size = data.size := by simp
        have hsz : ((data.set! ((i0 + a) % data.size) (some x)).set! ((i0 + (b + 1)) % data.size) none).size = data.size := by
          simp
        have get : ∀ q, ((data.set! ((i0 + a) % data.size) (some x)).set! ((i0 + (b + 1)) % data.size) none).getD q none =
            if q = (i0 + (b + 1)) % data.size then none
            else if q = (i0 + a) % data.size then some x else data.getD q none := by
          intro q
          rw [getD_set!' _ _ _ _ (by rw [hsz1]; exact hjn), getD_set!' _ _ _ _ hhn]
        have hwit : ∃ m', 1 ≤ m' ∧ m' ≤ f ∧ (b + 1) + m' <
            ((data.set! ((i0 + a) % data.size) (some x)).set! ((i0 + (b + 1)) % data.size) none).size ∧
            ((data.set! ((i0 + a) % data.size) (some x)).set! ((i0 + (b + 1)) % data.size) none).getD
              ((i0 + ((b + 1) + m')) %
                ((data.set! ((i0 + a) % data.size) (some x)).set! ((i0 + (b + 1)) % data.size) none).size) none = none := by
          rw [hsz]
          refine ⟨m - 1, by omega, by omega, by omega, ?_⟩
          have e : b + 1 + (m - 1) = b + m := by omega
          rw [e, get]
          by_cases e1 : (i0 + (b + m)) % data.size = (i0 + (b + 1)) % data.size
          · rw [if_pos e1]
          · rw [if_neg e1]
            have e2 : (i0 + (b + m)) % data.size ≠ (i0 + a) % data.size := by
              intro h
              have := ofs_inj data.size i0 (b + m) a hmn (by omega) h
              omega
            rw [if_neg e2]; exact hmz
        have hR' := hR
        rw [← hsz] at hR'
        have := ih _ (b + 1) (b + 1) (by rw [hsz]; exact hi) (Nat.le_refl _) hwit t y (by rw [hsz]; exact ht)
          (by
            have e : ((data.set! ((i0 + a) % data.size) (some x)).set! ((i0 + (b + 1)) % data.size) none).size = data.size := hsz
            rw [e]; exact hR)
        obtain ⟨t', htt, ht', hy⟩ := this
        rw [hsz] at ht' hy
        rw [get] at hy
        by_cases e1 : (i0 + t') % data.size = (i0 + (b + 1)) % data.size
        · rw [if_pos e1] at hy; exact absurd hy (by simp)
        · rw [if_neg e1] at hy
          by_cases e2 : (i0 + t') % data.size = (i0 + a) % data.size
          · rw [if_pos e2] at hy
            have hya : t' = a := ofs_inj data.size i0 t' a ht' (by omega) e2
            have : y = x := by simpa using hy.symm
            subst this
            exact ⟨b + 1, by omega, by omega, hx⟩
          · rw [if_neg e2] at hy
            exact ⟨t', htt, ht', hy⟩
      · -- the element stays
        have hwit : ∃ m', 1 ≤ m' ∧ m' ≤ f ∧ (b + 1) + m' < data.size ∧
            data.getD ((i0 + ((b + 1) + m')) % data.size) none = none := by
          refine ⟨m - 1, by omega, by omega, by omega, ?_⟩
          have e : b + 1 + (m - 1) = b + m := by omega
          rw [e]; exact hmz
        exact ih data a (b + 1) hi (by omega) hwit t y ht hR


/-- removing the element of an occupied slot: the invariants are kept, exactly that element goes, and whatever is found in
    front of the slot afterwards was in front of it before -/
theorem removeAt_step (s : HSet) (hg : Good s) (i : Nat) (x : Elem) (hi : i < s.data.size)
    (hx : s.data.getD i none = some x) :
    Good { s with data := removeAt s.data i, size := s.size - 1 } ∧
    (x :: slots (removeAt s.data i)).Perm (slots s.data) ∧
    (∀ q y, q < i → (removeAt s.data i).getD q none = some y → ∃ q', q' < i ∧ s.data.getD q' none = some y) := by
  have hn : 0 < s.data.size := by omega
  have h1 := hg.cnt; have h2 := hg.le; have h3 := hg.thr; have h4 := hg.pos
  have hsz : (removeAt s.data i).size = s.data.size := by
    unfold removeAt; rw [shiftBack_size]; simp
  have hsz0 : (s.data.set! i none).size = s.data.size := by simp
  have hperm : (x :: slots (removeAt s.data i)).Perm (slots s.data) := by
    have hc := slots_clear s.data i x hi hx
    have hsb : (slots (removeAt s.data i)).Perm (slots (s.data.set! i none)) := by
      unfold removeAt
      refine shiftBack_perm _ _ i i (by rw [hsz0]; exact hi) ?_
      rw [getD_set!' _ _ _ _ hi, if_pos rfl]
    exact (List.Perm.cons x hsb).trans hc
  have hpc : PC (removeAt s.data i) := by
    unfold removeAt
    have inv := sinv_init s hg i x hi hx
    have := shiftBack_pc s.data.size (s.data.set! i none) i 0 inv
    rw [Nat.add_zero, hsz0, Nat.mod_eq_of_lt hi] at this
    exact this
  have hlen : (slots (removeAt s.data i)).length + 1 = (slots s.data).length := by
    rw [← hperm.length_eq]; simp
  refine ⟨⟨?_, hpc, ?_, ?_, ?_⟩, hperm, ?_⟩
  · show 64 ≤ (removeAt s.data i).size
    rw [hsz]; exact h4
  · show s.size - 1 = (slots (removeAt s.data i)).length
    omega
  · show s.size - 1 ≤ s.threshold
    omega
  · show s.threshold = thresholdOf (removeAt s.data i).size
    rw [hsz]; exact h3
  · -- positions in front of the slot
    intro q y hq hy
    -- another empty slot, as the witness of termination
    have hfree : (slots s.data).length < s.data.size := by
      unfold thresholdOf at h3; omega
    obtain ⟨k', hk', hkn⟩ := exists_none s.data hfree
    have hne : k' ≠ i := by
      intro e; rw [e, hx] at hkn; exact absurd hkn (by simp)
    obtain ⟨m, hm, hmk⟩ := exists_offset s.data.size i k' hi hk'
    have hm0 : m ≠ 0 := by
      intro e; subst e
      rw [Nat.add_zero, Nat.mod_eq_of_lt hi] at hmk
      exact hne hmk.symm
    have get0 : ∀ p, (s.data.set! i none).getD p none = if p = i then none else s.data.getD p none :=
      fun p => getD_set!' _ _ _ _ hi
    have hwit : ∃ m', 1 ≤ m' ∧ m' ≤ s.data.size ∧ 0 + m' < (s.data.set! i none).size ∧
        (s.data.set! i none).getD ((i + (0 + m')) % (s.data.set! i none).size) none = none := by
      rw [hsz0]
      refine ⟨m, by omega, by omega, by omega, ?_⟩
      rw [Nat.zero_add, hmk, get0, if_neg hne]; exact hkn
    -- q is the offset q + n - i from i
    have hqt : (i + (q + s.data.size - i)) % s.data.size = q := by
      have : i + (q + s.data.size - i) = q + s.data.size := by omega
      rw [this, Nat.add_mod_right, Nat.mod_eq_of_lt (by omega)]
    have hR : (shiftBack (s.data.set! i none) s.data.size ((i + 0) % (s.data.set! i none).size)
        ((i + 0) % (s.data.set! i none).size)).getD ((i + (q + s.data.size - i)) % (s.data.set! i none).size) none = some y := by
      rw [hsz0, Nat.add_zero, Nat.mod_eq_of_lt hi, hqt]
      unfold removeAt at hy
      exact hy
    obtain ⟨t', htt, ht', hy'⟩ := shiftBack_src i s.data.size (s.data.set! i none) 0 0 (by rw [hsz0]; exact hi)
      (Nat.le_refl _) hwit (q + s.data.size - i) y (by rw [hsz0]; omega) hR
    rw [hsz0] at ht' hy'
    have hq' : (i + t') % s.data.size = i + t' - s.data.size := by
      rw [Nat.mod_eq_sub_mod (by omega), Nat.mod_eq_of_lt (by omega)]
    rw [hq', get0, if_neg (by omega)] at hy'
    exact ⟨i + t' - s.data.size, by omega, hy'⟩


/-- the sweep of `lp_polynomial_hash_set_intersect`: everything in front of the current slot is kept -/
theorem intersectLoop_ok (keep : Elem → Bool) : ∀ (fuel i : Nat) (s : HSet), Good s →
    (∀ q y, q < i → s.data.getD q none = some y → keep y = true) →
    (s.data.size - i) + s.size + 1 ≤ fuel →
    Good (intersectLoop keep fuel i s) ∧
    (∀ y ∈ slots (intersectLoop keep fuel i s).data, keep y = true) ∧
    ∃ rem, (slots (intersectLoop keep fuel i s).data ++ rem).Perm (slots s.data) ∧ ∀ y ∈ rem, keep y = false := by
  intro fuel
  induction fuel with
  | zero => intro i s _ _ hf; omega
  | succ f ih =>
    intro i s hg hpos hf
    unfold intersectLoop
    by_cases hi : i ≥ s.data.size
    · rw [if_pos hi]
      refine ⟨hg, fun y hy => ?_, [], by simp, by simp⟩
      obtain ⟨j, hj, hyj⟩ := (mem_slots_iff _ _).1 hy
      exact hpos j y (by omega) hyj
    · rw [if_neg hi]
      have hi' : i < s.data.size := by omega
      cases hx : s.data.getD i none with
      | none =>
        dsimp only
        refine ih (i + 1) s hg (fun q y hq hy => ?_) (by omega)
        rcases Nat.lt_or_ge q i with h | h
        · exact hpos q y h hy
        · have : q = i := by omega
          rw [this, hx] at hy; exact absurd hy (by simp)
      | some e =>
        dsimp only
        by_cases hk : keep e = true
        · rw [if_pos hk]
          refine ih (i + 1) s hg (fun q y hq hy => ?_) (by omega)
          rcases Nat.lt_or_ge q i with h | h
          · exact hpos q y h hy
          · have : q = i := by omega
            rw [this, hx] at hy
            have : y = e := by simpa using hy.symm
            rw [this]; exact hk
        · rw [if_neg hk]
          obtain ⟨hg', hperm, hfront⟩ := removeAt_step s hg i e hi' hx
          have hsz : (removeAt s.data i).size = s.data.size := by
            unfold removeAt; rw [shiftBack_size]; simp
          have hpos' : ∀ q y, q < i → (removeAt s.data i).getD q none = some y → keep y = true := by
            intro q y hq hy
            obtain ⟨q', hq', hy'⟩ := hfront q y hq hy
            exact hpos q' y hq' hy'
          have hsize : 1 ≤ s.size := by
            rw [hg.cnt]
            have : e ∈ slots s.data := (mem_slots_iff _ _).2 ⟨i, hi', hx⟩
            exact List.length_pos_of_mem this
          obtain ⟨g, hall, rem, hp, hrem⟩ := ih i { s with data := removeAt s.data i, size := s.size - 1 } hg' hpos'
            (by show (removeAt s.data i).size - i + (s.size - 1) + 1 ≤ f; rw [hsz]; omega)
          refine ⟨g, hall, e :: rem, ?_, ?_⟩
          · exact (List.perm_middle.trans (List.Perm.cons e hp)).trans hperm
          · intro y hy
            rcases List.mem_cons.1 hy with rfl | hy'
            · simpa using hk
            · exact hrem y hy'

/-- **`lp_polynomial_hash_set_intersect`: the invariants are kept and exactly the elements to keep remain** -/
theorem intersect_ok (s : HSet) (keep : Elem → Bool) (hg : Good s) :
    Good (intersect s keep) ∧
    (∀ y, y ∈ slots (intersect s keep).data ↔ (y ∈ slots s.data ∧ keep y = true)) ∧
    ∃ rem, (slots (intersect s keep).data ++ rem).Perm (slots s.data) := by
  unfold intersect
  obtain ⟨g, hall, rem, hp, hrem⟩ := intersectLoop_ok keep (s.data.size * 2 + s.size + 2) 0 s hg
    (fun q y hq _ => by omega) (by omega)
  refine ⟨g, fun y => ⟨fun hy => ⟨hp.subset (List.mem_append_left _ hy), hall y hy⟩, fun ⟨hy, hk⟩ => ?_⟩, rem, hp⟩
  rcases List.mem_append.1 (hp.symm.subset hy) with h | h
  · exact h
  · have := hrem y h
    rw [hk] at this; exact absurd this (by simp)


/-! ### histories with intersections -/

/-- operations of a history, intersections included (`inter K`: keep the elements whose key satisfies `K`, as the
    intersection with another set does) -/
inductive SOp2
  | ins (e : Elem)
  | rem (e : Elem)
  | inter (K : Nat → Bool)

def applySOp2 (s : HSet) : SOp2 → HSet
  | .ins e => (insert s e).1
  | .rem e => (remove s e).1
  | .inter K => intersect s (fun e => K e.key)

def specStep2 (S : SpecSet) : SOp2 → SpecSet
  | .ins e => S.ins e.key
  | .rem e => S.del e.key
  | .inter K => ⟨S.keys.filter K⟩

def opOK2 (U : Elem → Prop) : SOp2 → Prop
  | .ins e => U e
  | .rem e => U e
  | .inter _ => True

/-- an intersection keeps the invariants and the representation -/
theorem step_inter (U : Elem → Prop) (s : HSet) (S : SpecSet) (K : Nat → Bool) (hg : Good s) (hl : Link U s S) :
    Good (intersect s (fun e => K e.key)) ∧ Link U (intersect s (fun e => K e.key)) ⟨S.keys.filter K⟩ := by
  obtain ⟨g, hiff, rem, hp⟩ := intersect_ok s (fun e => K e.key) hg
  refine ⟨g, ⟨fun key => ?_, ?_, hl.snodup.filter _, fun y hy => hl.univ y ((hiff y).1 hy).1⟩⟩
  · simp only [List.mem_filter]
    constructor
    · rintro ⟨y, hy, hk⟩
      obtain ⟨hy1, hy2⟩ := (hiff y).1 hy
      exact ⟨(hl.keys key).1 ⟨y, hy1, hk⟩, by rw [← hk]; exact hy2⟩
    · rintro ⟨hk, hK⟩
      obtain ⟨y, hy, hyk⟩ := (hl.keys key).2 hk
      exact ⟨y, (hiff y).2 ⟨hy, by show K y.key = true; rw [hyk]; exact hK⟩, hyk⟩
  · have hnd : ((slots (intersect s (fun e => K e.key)).data ++ rem).map (·.key)).Nodup :=
      (hp.map (·.key)).nodup_iff.2 hl.nodup
    rw [List.map_append] at hnd
    exact (List.nodup_append.1 hnd).1

def run2 (ops : List SOp2) : HSet := ops.foldl applySOp2 HSet.empty
def specRun2 (ops : List SOp2) : SpecSet := ops.foldl specStep2 ⟨[]⟩

/-- **the hash set refines the mathematical set for every history of insertions, removals and intersections** -/
theorem C20_hset_refines2 (U : Elem → Prop) (hU : ∀ x y, U x → U y → x.key = y.key → x.hash = y.hash)
    (ops : List SOp2) (hops : ∀ op ∈ ops, opOK2 U op) : Good (run2 ops) ∧ Link U (run2 ops) (specRun2 ops) := by
  suffices H : ∀ (ops : List SOp2) (s : HSet) (S : SpecSet), Good s → Link U s S → (∀ op ∈ ops, opOK2 U op) →
      Good (ops.foldl applySOp2 s) ∧ Link U (ops.foldl applySOp2 s) (ops.foldl specStep2 S) from
    H ops _ _ good_empty (link_empty U) hops
  intro ops
  induction ops with
  | nil => intro s S hg hl _; exact ⟨hg, hl⟩
  | cons op ops ih =>
    intro s S hg hl hops
    have hop := hops op List.mem_cons_self
    have hrest : ∀ o ∈ ops, opOK2 U o := fun o ho => hops o (List.mem_cons_of_mem _ ho)
    cases op with
    | ins e =>
      obtain ⟨hg', hl', _⟩ := step_ok U hU s S (.insert e) hg hl hop
      exact ih _ _ hg' hl' hrest
    | rem e =>
      obtain ⟨hg', hl', _⟩ := step_ok U hU s S (.remove e) hg hl hop
      exact ih _ _ hg' hl' hrest
    | inter K =>
      obtain ⟨hg', hl'⟩ := step_inter U s S K hg hl
      exact ih _ _ hg' hl' hrest

/-- in a represented state `contains` is membership, the size field is the cardinality and the enumeration lists every key
    once -/
theorem link_observers (U : Elem → Prop) (hU : ∀ x y, U x → U y → x.key = y.key → x.hash = y.hash)
    (s : HSet) (S : SpecSet) (hg : Good s) (hl : Link U s S) :
    (∀ e, U e → s.contains e = S.has e.key) ∧ (keys s).Perm S.keys ∧ s.size = S.keys.length := by
  have hperm : (keys s).Perm S.keys := by
    unfold keys
    rw [closeList_eq]
    refine (List.perm_ext_iff_of_nodup hl.nodup hl.snodup).2 (fun k => ?_)
    rw [← hl.keys k, List.mem_map]
  refine ⟨fun e he => ?_, hperm, ?_⟩
  · by_cases hin : e.key ∈ S.keys
    · have hhas : S.has e.key = true := by simpa [SpecSet.has] using hin
      obtain ⟨y, hy, hyk⟩ := (hl.keys e.key).2 hin
      obtain ⟨j, hp⟩ := probe_finds s hg y e hy hyk (hU y e (hl.univ y hy) he hyk)
      rw [hhas]; unfold contains; rw [hp]
    · have hhas : S.has e.key = false := by simpa [SpecSet.has] using hin
      have hno : ∀ y ∈ slots s.data, y.key ≠ e.key := fun y hy hk => hin ((hl.keys e.key).1 ⟨y, hy, hk⟩)
      obtain ⟨i, hp⟩ := probe_misses s hg e hno
      rw [hhas]; unfold contains; rw [hp]
  · rw [hg.cnt, ← hperm.length_eq]
    unfold keys
    rw [closeList_eq, List.length_map]

/-- **membership, size and enumeration after every history of insertions, removals and intersections** -/
theorem C20_hset_observers2 (U : Elem → Prop) (hU : ∀ x y, U x → U y → x.key = y.key → x.hash = y.hash)
    (ops : List SOp2) (hops : ∀ op ∈ ops, opOK2 U op) :
    (∀ e, U e → (run2 ops).contains e = (specRun2 ops).has e.key) ∧
    (keys (run2 ops)).Perm (specRun2 ops).keys ∧ (run2 ops).size = (specRun2 ops).keys.length := by
  obtain ⟨hg, hl⟩ := C20_hset_refines2 U hU ops hops
  exact link_observers U hU _ _ hg hl

end HSet
end LP
