/-
  Reference model of multivariate polynomials over Z and Z_M (C01, C02, C18, C19, and the validators):
  a polynomial is a list of terms (monomial, coefficient); the canonical form is strictly sorted by
  monomial with non-zero coefficients (in Z_M: symmetric representatives).  All arithmetic is
  "concatenate / multiply out, then normalise", which keeps the semantic proofs short.
  Core Lean only.
-/
import LP.Model.Scalar
namespace LP

/-- a monomial: (variable id, exponent) pairs, canonical = strictly increasing ids, positive exponents -/
abbrev Mono := List (Nat × Nat)

namespace Mono

def insertVar (x e : Nat) : Mono → Mono
  | [] => if e = 0 then [] else [(x, e)]
  | (y, f) :: r =>
    if e = 0 then (y, f) :: r
    else if x < y then (x, e) :: (y, f) :: r
    else if x = y then (y, f + e) :: r
    else (y, f) :: insertVar x e r

/-- canonical form of an arbitrary list of powers -/
def norm (m : Mono) : Mono := m.foldr (fun p acc => insertVar p.1 p.2 acc) []

def mul (a b : Mono) : Mono := norm (a ++ b)

/-- total order on canonical monomials (lexicographic on the pair lists) -/
def lt : Mono → Mono → Bool
  | [], [] => false
  | [], _ :: _ => true
  | _ :: _, [] => false
  | (x, e) :: r, (y, f) :: s =>
    if x < y then true else if y < x then false
    else if e < f then true else if f < e then false
    else lt r s

def degreeIn (x : Nat) (m : Mono) : Nat := (m.filter (fun p => p.1 = x)).foldl (fun acc p => acc + p.2) 0
def totalDegree (m : Mono) : Nat := m.foldl (fun acc p => acc + p.2) 0
def vars (m : Mono) : List Nat := m.map (·.1)
/-- remove variable x from the monomial -/
def without (x : Nat) (m : Mono) : Mono := m.filter (fun p => p.1 ≠ x)

end Mono

abbrev Term := Mono × Int
/-- a polynomial as a list of terms -/
abbrev MPoly := List Term

namespace MPoly

/-- insert a term into a canonical list (sorted by `Mono.lt`), combining equal monomials and dropping zeros;
    coefficients are normalised into the ring `K`. -/
def insertTerm (K : Ring) (m : Mono) (c : Int) : MPoly → MPoly
  | [] => if norm K c = 0 then [] else [(m, norm K c)]
  | (n, d) :: r =>
    if Mono.lt m n then (if norm K c = 0 then (n, d) :: r else (m, norm K c) :: (n, d) :: r)
    else if m = n then (if norm K (c + d) = 0 then r else (n, norm K (c + d)) :: r)
    else (n, d) :: insertTerm K m c r

/-- canonical form -/
def normalize (K : Ring) (p : MPoly) : MPoly := p.foldr (fun t acc => insertTerm K (Mono.norm t.1) t.2 acc) []

def zero : MPoly := []
def const (K : Ring) (c : Int) : MPoly := normalize K [([], c)]
def add (K : Ring) (p q : MPoly) : MPoly := normalize K (p ++ q)
def neg (K : Ring) (p : MPoly) : MPoly := normalize K (p.map (fun t => (t.1, -t.2)))
def sub (K : Ring) (p q : MPoly) : MPoly := add K p (neg K q)
def mulTerm (m : Mono) (c : Int) (p : MPoly) : MPoly := p.map (fun t => (m ++ t.1, c * t.2))
def mul (K : Ring) (p q : MPoly) : MPoly := normalize K (p.flatMap (fun t => mulTerm t.1 t.2 q))
def mulInt (K : Ring) (p : MPoly) (c : Int) : MPoly := normalize K (p.map (fun t => (t.1, c * t.2)))
def pow (K : Ring) (p : MPoly) : Nat → MPoly
  | 0 => const K 1
  | n+1 => mul K (pow K p n) p
def addMul (K : Ring) (s a b : MPoly) : MPoly := add K s (mul K a b)
def subMul (K : Ring) (s a b : MPoly) : MPoly := sub K s (mul K a b)
/-- multiply by x^n -/
def shl (K : Ring) (p : MPoly) (x n : Nat) : MPoly := normalize K (mulTerm [(x, n)] 1 p)
/-- partial derivative in x -/
def derivative (K : Ring) (p : MPoly) (x : Nat) : MPoly :=
  normalize K (p.filterMap (fun t =>
    let d := Mono.degreeIn x t.1
    if d = 0 then none
    else some ((if d = 1 then [] else [(x, d - 1)]) ++ Mono.without x t.1, (d : Int) * t.2)))

/-- evaluate at an integer assignment (variables not listed are 0) -/
def evalInt (p : MPoly) (asg : Nat → Int) : Int :=
  p.foldl (fun acc t => acc + t.2 * t.1.foldl (fun a q => a * asg q.1 ^ q.2) 1) 0
def evalRat (p : MPoly) (asg : Nat → Rat) : Rat :=
  p.foldl (fun acc t => acc + (t.2 : Rat) * t.1.foldl (fun a q => a * asg q.1 ^ q.2) 1) 0

def degreeIn (x : Nat) (p : MPoly) : Nat := p.foldl (fun acc t => max acc (Mono.degreeIn x t.1)) 0
def vars (p : MPoly) : List Nat := (p.flatMap (fun t => Mono.vars t.1)).eraseDups
/-- coefficient of x^k as a polynomial in the remaining variables -/
def coeffIn (K : Ring) (x k : Nat) (p : MPoly) : MPoly :=
  normalize K (p.filterMap (fun t => if Mono.degreeIn x t.1 = k then some (Mono.without x t.1, t.2) else none))

/-- is the term list literally in canonical form (sorted, non-zero, in-range coefficients, canonical monomials) -/
def sortedLt : MPoly → Bool
  | [] => true
  | [_] => true
  | a :: b :: r => Mono.lt a.1 b.1 && sortedLt (b :: r)
def monoCanon : Mono → Bool
  | [] => true
  | [p] => p.2 > 0
  | p :: q :: r => p.2 > 0 && p.1 < q.1 && monoCanon (q :: r)
def isCanonical (K : Ring) (p : MPoly) : Bool :=
  sortedLt p && p.all (fun t => t.2 ≠ 0 && inRing K t.2 && monoCanon t.1)

/-! ### division support (validators of C02/C03) -/

end MPoly

namespace Mono
/-- lexicographic monomial order with higher variable ids more significant (a genuine monomial order) -/
def lexLtRev : List (Nat × Nat) → List (Nat × Nat) → Bool
  | [], [] => false
  | [], _ :: _ => true
  | _ :: _, [] => false
  | (x, e) :: r, (y, f) :: s =>
    if x > y then false          -- a has a higher variable: a is bigger
    else if y > x then true
    else if e < f then true else if f < e then false
    else lexLtRev r s
def lexLt (a b : Mono) : Bool := lexLtRev a.reverse b.reverse

/-- exponent-wise quotient a / b when b divides a (canonical inputs) -/
def div? (a b : Mono) : Option Mono :=
  let q := b.foldl (fun (acc : Option Mono) p =>
    match acc with
    | none => none
    | some m =>
      let d := degreeIn p.1 m
      if d < p.2 then none
      else some (norm ((without p.1 m) ++ (if d = p.2 then [] else [(p.1, d - p.2)])))) (some a)
  q
end Mono

namespace MPoly

/-- leading term with respect to `Mono.lexLt` -/
def leadTerm (p : MPoly) : Option Term :=
  p.foldl (fun acc t => match acc with
    | none => some t
    | some u => if Mono.lexLt u.1 t.1 then some t else some u) none

/-- coefficient quotient in the ring: exact in Z, by inverse in a prime field; `none` if impossible -/
def coeffDiv? (K : Ring) (isPrime : Bool) (a b : Int) : Option Int :=
  match K with
  | none => if b ≠ 0 ∧ a % b = 0 then some (a / b) else none
  | some M => if isPrime then (iInv M b).map (fun i => normalizeM M (a * i)) else none

/-- multivariate division by a single divisor with multiply-back: `some Q` implies `A = Q * B` -/
def divLoop (K : Ring) (isPrime : Bool) (B : MPoly) (ltB : Term) : Nat → MPoly → MPoly → Option MPoly
  | 0, _, _ => none
  | fuel+1, R, Q =>
    match leadTerm R with
    | none => some Q
    | some t =>
      match Mono.div? t.1 ltB.1, coeffDiv? K isPrime t.2 ltB.2 with
      | some m, some c =>
        let R' := sub K R (normalize K (mulTerm m c B))
        divLoop K isPrime B ltB fuel R' (add K Q [(m, c)])
      | _, _ => none

def divExact? (K : Ring) (isPrime : Bool) (A B : MPoly) : Option MPoly :=
  match leadTerm B with
  | none => none
  | some ltB =>
    match divLoop K isPrime B ltB (A.length * (B.length + 1) * 64 + 64) A [] with
    | some Q => if mul K Q B = A then some Q else none
    | none => none

/-- leading coefficient in x (a polynomial in the other variables) -/
def lcIn (K : Ring) (x : Nat) (p : MPoly) : MPoly := coeffIn K x (degreeIn x p) p

/-- the identity `P * A = Q * B + R` on canonical forms -/
def checkReduceIdentity (K : Ring) (P A Q B R : MPoly) : Bool :=
  mul K P A = add K (mul K Q B) R

/-- `P = lc_x(B)^k` -/
def isLcPower (K : Ring) (x : Nat) (B P : MPoly) (k : Nat) : Bool := pow K (lcIn K x B) k = P

/-! ### the polynomial hash (C18): mirror of `integer_hash`, `hash_pair`, `coefficient_hash` on 64-bit words -/

def w64 (n : Nat) : Nat := n % 2 ^ 64
/-- `hash_combine(seed, h)` -/
def hashCombine (seed h : Nat) : Nat := w64 (h + 0x9e3779b9 + w64 (seed <<< 6) + (seed >>> 2))
/-- `hash_pair(a, b)` -/
def hashPair (a b : Nat) : Nat := w64 (a + 0x9e3779b9 + w64 (b <<< 6) + (b >>> 2))

/-- 64-bit limbs of a natural number, least significant first -/
def limbs : Nat → Nat → List Nat
  | 0, _ => []
  | fuel+1, n => if n = 0 then [] else (n % 2 ^ 64) :: limbs fuel (n / 2 ^ 64)

/-- `integer_hash`: fold of `hash_combine` over the limbs of |a| -/
def integerHash (a : Int) : Nat := (limbs (a.natAbs + 1) a.natAbs).foldl hashCombine 0

def termHash (t : Term) : Nat := t.1.foldl (fun h p => h ^^^ hashPair p.1 p.2) (integerHash t.2)

/-- `coefficient_hash`: XOR over all monomials; `lp_polynomial_hash` maps 0 to 1 -/
def hashRaw (p : MPoly) : Nat := p.foldl (fun h t => h ^^^ termHash t) 0
def hash (p : MPoly) : Nat := if hashRaw p = 0 then 1 else hashRaw p

end MPoly

/-! ### variable orders and layouts (C18) -/

/-- `lp_variable_order_cmp` without top/bottom: listed variables by position, unlisted ones above, by id -/
def ordCmp (l : List Nat) (x y : Nat) : Int :=
  if x = y then 0 else
  match l.idxOf? x, l.idxOf? y with
  | some i, some j => (i : Int) - (j : Int)
  | none, some _ => 1
  | some _, none => -1
  | none, none => (x : Int) - (y : Int)

/-- insertion sort of variables, descending in the order `l` -/
def sortDesc (l : List Nat) (vs : List Nat) : List Nat :=
  vs.foldr (fun v acc =>
    let rec ins : List Nat → List Nat
      | [] => [v]
      | w :: r => if ordCmp l v w > 0 then v :: w :: r else w :: ins r
    ins acc) []

/-- greatest variable of a polynomial under order `l` -/
def topVarOf (l : List Nat) (p : MPoly) : Option Nat :=
  (MPoly.vars p).foldl (fun acc v => match acc with
    | none => some v
    | some w => if ordCmp l v w > 0 then some v else some w) none

/-- the recursive layout built under order `L` (main variable = greatest variable under `L`, coefficients nested)
    has, at every level, a main variable that is greater under `C` than the main variable of every non-constant
    coefficient -/
def layoutInOrderRec (L C : List Nat) : Nat → MPoly → Bool
  | 0, _ => true
  | fuel+1, p =>
    match topVarOf L p with
    | none => true
    | some x =>
      let d := MPoly.degreeIn x p
      (List.range (d + 1)).all (fun k =>
        let ck : MPoly := p.filterMap (fun t => if Mono.degreeIn x t.1 = k then some (Mono.without x t.1, t.2) else none)
        match topVarOf L ck with
        | none => true
        | some y => ordCmp C x y > 0 && layoutInOrderRec L C fuel ck)

def layoutInOrder (L C : List Nat) (p : MPoly) : Bool := layoutInOrderRec L C 16 p


end LP
