import LP.Model.Feasible
import LP.Model.Complement
import LP.Driver.Value
namespace LP.Driver
open LP LP.QPoly

/-- `i=V;j=V` -/
def pAsg? (s : String) : Option (List (Nat × Val)) :=
  if s = "-" then some [] else
  (s.splitOn ";").mapM (fun e =>
    match e.splitOn "=" with
    | [i, v] => do
        let i ← pNat? i
        let v ← pVal? v
        some (i, v)
    | _ => none)

def asgToZ (a : List (Nat × Val)) : Option Asg := a.mapM (fun p => p.2.toZ?.map (fun z => (p.1, z)))

def asgKinds (a : List (Nat × Val)) : String :=
  let nAlg := (a.filter (fun p => match p.2 with | .alg r => r.f.isSome | _ => false)).length
  s!"alg{nAlg}"

def asgOperandsOk (a : List (Nat × Val)) : Option String :=
  a.findSome? (fun p => match p.2 with | .alg r => r.reprOk | _ => none)

def evalCap : Nat := 8

def checkEval (op : String) (args res : List String) : Verdict :=
  match op, args, res with
  | "keep", [before], [after] =>
    -- the assignment after a query: every value still well-formed and still the same number
    match pAsg? before, pAsg? after with
    | some b, some a =>
      if b.length ≠ a.length then .viol "ev/assignment-changed" "number of assigned variables changed" else
      if a.any (fun e => match e.2 with | .none => true | _ => false) then
        .viol "ev/assignment-changed" s!"a query removed a value from the assignment: {before} became {after}" else
      match asgOperandsOk a with
      | some m => .viol "state/operand-repr" s!"after the query: {m}"
      | none =>
        let judged := (b.zip a).map (fun p => if p.1.1 ≠ p.2.1 then some false else (Val.cmp p.1.2 p.2.2).map (· == 0))
        if judged.any (· == some false) then .viol "ev/assignment-changed" s!"a query changed the assignment: {before} became {after}"
        else if judged.any (·.isNone) then .skip "cmp out of fuel"
        else .ok "ev/keep"
    | _, _ => .skip "parse"
  | "sgn", [ps, as], [s] =>
    match pPolyRaw? ps, pAsg? as, pInt? s with
    | some raw, some av, some s =>
      match asgOperandsOk av, asgToZ av with
      | some m, _ => .viol "state/operand-repr" m
      | none, none => .skip "infinite value in assignment"
      | none, some a =>
        let p := MPoly.normalize none raw
        if Eval.elimSize p a > evalCap then
          -- no algebraic zero test available: only a certified non-zero sign can be judged
          match Eval.signLoop p 40 a (some [1]) with
          | some w => if w ≠ 0 then (if sgnI s = w then .ok s!"ev/sgn/{asgKinds av}/nonzero-big" else .viol "ev/sgn" s!"got {s}, exact {w}") else .skip "size cap"
          | none => .skip "size cap"
        else
        match Eval.exactSign p a with
        | none => .skip "sign out of fuel"
        | some w =>
          let tag := s!"ev/sgn/{asgKinds av}/{if w = 0 then "zero" else "nonzero"}"
          if sgnI s = w then .ok tag else .viol tag s!"got {s}, exact {w}"
    | _, _, _ => .skip "parse"
  | "cons", [ps, cs, as], [b] =>
    match pPolyRaw? ps, pNat? cs, pAsg? as, pInt? b with
    | some raw, some c, some av, some b =>
      match asgToZ av with
      | none => .skip "infinite value in assignment"
      | some a =>
        let p := MPoly.normalize none raw
        if Eval.elimSize p a > evalCap then .skip "size cap" else
        match Eval.exactSign p a with
        | none => .skip "sign out of fuel"
        | some w =>
          let tag := s!"ev/cons/{c}/{if w = 0 then "zero" else "nonzero"}"
          if (b ≠ 0) = Eval.consistent c w then .ok tag else .viol tag s!"got {b}, exact sign {w}"
    | _, _, _, _ => .skip "parse"
  | "value", [ps, as], [v] =>
    match pPolyRaw? ps, pAsg? as, pVal? v with
    | some raw, some av, some v =>
      match asgOperandsOk av, asgToZ av, valOk v with
      | some m, _, _ => .viol "state/operand-repr" m
      | none, none, _ => .skip "infinite value in assignment"
      | none, some a, .ok _ =>
        let p := MPoly.normalize none raw
        if Eval.elimSize p a > evalCap then .skip "size cap" else
        match v.toZ? with
        | none => .viol "ev/value" "non-finite value"
        | some t =>
          match Eval.exactValue p a with
          | none => .skip "value inconclusive"
          | some (R, J) =>
            match ZAlg.isThe R J t.a with
            | none => .skip "fuel"
            | some true => .ok s!"ev/value/{asgKinds av}/{v.kind}"
            | some false => .viol s!"ev/value" "the value is not p at the assignment"
      | none, some _, w => w
    | _, _, _ => .skip "parse"
  | _, _, _ => .skip s!"unknown ev op {op}"

/-! ### C11 / C12 -/

def yVar : Nat := 3

/-- `[V]` or `(V~V]` -/
def pVInt? (s : String) : Option (Val × Bool × Val × Bool) :=
  if s.length < 3 then none else
  let first := s.front
  let last := s.back
  let inner := ((s.drop 1).toString.dropEnd 1).toString
  match inner.splitOn "~" with
  | [p] => if first = '[' ∧ last = ']' then (pVal? p).map (fun v => (v, false, v, false)) else none
  | [a, b] => do
      let a ← pVal? a
      let b ← pVal? b
      let ao ← if first = '(' then some true else if first = '[' then some false else none
      let bo ← if last = ')' then some true else if last = ']' then some false else none
      some (a, ao, b, bo)
  | _ => none

def pVSet? (s : String) : Option (List (Val × Bool × Val × Bool)) :=
  if s = "{}" then some [] else
  if !(s.startsWith "{" && s.endsWith "}") then none else
  ((((s.drop 1).toString.dropEnd 1).toString).splitOn ";").mapM pVInt?

/-- does the C end point denote the model end point? -/
def epMatches (rs : List Alg) (e : Eval.EPt) (v : Val) : Option Bool :=
  match e, v with
  | .ninf, .minf => some true
  | .pinf, .pinf => some true
  | .root i, v =>
    match rs[i]?, v.toZ? with
    | some r, some z => (Alg.cmp r z.a).map (· == 0)
    | _, _ => some false
  | _, _ => some false

def setMatches (rs : List Alg) (want : List Eval.SInt) (got : List (Val × Bool × Val × Bool)) : Option Bool :=
  if want.length ≠ got.length then some false else
  ((want.zip got).mapM (fun (p : Eval.SInt × (Val × Bool × Val × Bool)) =>
    let w := p.1; let g := p.2
    match epMatches rs w.lo g.1, epMatches rs w.hi g.2.2.1 with
    | some a, some b => some (a && b && (w.loOpen == g.2.1) && (w.hiOpen == g.2.2.2))
    | _, _ => none)).map (fun (l : List Bool) => l.all id)

def showSInt (i : Eval.SInt) : String :=
  let e : Eval.EPt → String := fun e => match e with | .ninf => "-inf" | .pinf => "+inf" | .root k => s!"r{k}"
  s!"{if i.loOpen then "(" else "["}{e i.lo},{e i.hi}{if i.hiOpen then ")" else "]"}"

def rootsCap : Nat := 8

/-- the leading coefficients in y that vanish exactly under the assignment are dropped before the reference is computed: the
    specialised polynomial is the same function (`reduceLeading_spec`), the eliminations become much smaller -/
def reduced (p : MPoly) (a : Asg) : MPoly := (Eval.reduceLeading p yVar a 12).getD p

def checkEval2 (op : String) (args res : List String) : Verdict :=
  match op, args, res with
  | "roots", [ps, as], ns :: vs =>
    match pPolyRaw? ps, pAsg? as, pNat? ns, vs.mapM pVal? with
    | some raw, some av, some n, some got =>
      match asgOperandsOk av, asgToZ av with
      | some m, _ => .viol "state/operand-repr" m
      | none, none => .skip "infinite value in assignment"
      | none, some a =>
        if n ≠ got.length then .viol "ev/roots" "size does not match the list" else
        match got.findSome? (fun v => match valOk v with | .viol c m => some (Verdict.viol c m) | _ => none) with
        | some v => v
        | none =>
        let p := reduced (MPoly.normalize none raw) a
        match Eval.rootsUnder p yVar a rootsCap with
        | none =>
          -- degenerate eliminant (or cap): isolate by interval arithmetic alone (simple roots only)
          match Eval.rootsByIntervals p yVar a with
          | none => .skip "roots inconclusive (size cap / fuel / multiple roots with a degenerate eliminant)"
          | some cells =>
            let tag := s!"ev/roots-by-intervals/{asgKinds av}/{cells.length}"
            if cells.length ≠ n then .viol tag s!"{n} roots returned, exact number {cells.length}" else
            let judged := (cells.zip got).map (fun cg =>
              match cg.2.toZ? with
              | none => some false
              | some z =>
                let inCell : Option Bool := match cg.1 with
                  | .pt q => (Alg.cmpRat z.a q).map (· == 0)
                  | .iv l u => match Alg.cmpRat z.a l, Alg.cmpRat z.a u with
                    | some c1, some c2 => some (c1 > 0 && c2 < 0)
                    | _, _ => none
                let cand : Asg := (yVar, z) :: a
                let isRoot : Option Bool := if Eval.elimSize p cand > rootsCap then some true else (Eval.exactSign p cand).map (· == 0)
                match inCell, isRoot with
                | some x, some y => some (x && y)
                | _, _ => none)
            if judged.any (· == some false) then .viol tag "a returned root is not the root of the specialised polynomial in its cell"
            else if judged.any (· == none) then .skip "cmp out of fuel"
            else .ok tag
        | some want =>
          let tag := s!"ev/roots/{asgKinds av}/{want.length}"
          if want.length ≠ n then .viol tag s!"{n} roots returned, exact number {want.length}" else
          match (want.zip got).mapM (fun p => match p.2.toZ? with | some z => (Alg.cmp p.1 z.a).map (· == 0) | none => some false) with
          | none => .skip "cmp out of fuel"
          | some l => if l.all id then .ok tag else .viol tag "a returned root is not the corresponding exact root"
    | _, _, _, _ => .skip "parse"
  | "fsmem", [fss, vs], [r] =>
    -- lp_feasibility_set_contains on a returned set: membership by the exact comparison with the end points
    match pVSet? fss, pVal? vs with
    | some S, some v =>
      let inI : (Val × Bool × Val × Bool) → Option Bool := fun i =>
        match Val.cmp i.1 v, Val.cmp v i.2.2.1 with
        | some c1, some c2 => some ((c1 < 0 || (c1 == 0 && !i.2.1)) && (c2 < 0 || (c2 == 0 && !i.2.2.2)))
        | _, _ => none
      match S.mapM inI with
      | none => .skip "comparison out of fuel"
      | some l =>
        let want := l.any id
        if r = (if want then "1" else "0") then .ok s!"ev/fsmem/{S.length}/{if want then "in" else "out"}"
        else .viol "ev/fsmem" s!"lp_feasibility_set_contains answered {r} for a value that is {if want then "" else "not "}in the set"
    | _, _ => .skip "parse"
  | "infeas", [_cs, fss], [rss] =>
    -- poly::infeasible_regions(p, m, cond) must be the complement of the feasible set just validated (same line pair)
    match pVSet? fss, pVSet? rss with
    | some S, some R =>
      let ends := (S ++ R).flatMap (fun i => [i.1, i.2.2.1])
      -- every comparison the one-pass complement needs must be decided by the exact comparison
      if ends.any (fun a => ends.any (fun b => (Val.cmp a b).isNone)) then .skip "comparison out of fuel" else
      let lt : Val → Val → Bool := fun a b => Val.cmp a b == some (-1)
      let eq : Val → Val → Bool := fun a b => Val.cmp a b == some 0
      let toI : (Val × Bool × Val × Bool) → Compl.Itv Val := fun i => ⟨i.1, i.2.1, i.2.2.1, i.2.2.2⟩
      -- precondition of the helper (and of the theorem): a sorted list of disjoint non-empty intervals
      let sorted := ((S.zip S.tail).all (fun p => lt p.1.2.2.1 p.2.1 || (eq p.1.2.2.1 p.2.1 && (p.1.2.2.2 || p.2.2.1))))
      if !sorted then .viol "ev/fs-nf" "feasible set not sorted / not disjoint" else
      let want := Compl.complement lt eq Val.minf Val.pinf (S.map toI)
      let same := want.length = R.length && (want.zip R).all (fun p =>
        eq p.1.lo p.2.1 && eq p.1.hi p.2.2.2.1 &&
        -- a point region may be printed as [v]
        ((p.1.loOpen == p.2.2.1 && p.1.hiOpen == p.2.2.2.2)))
      if same then .ok s!"ev/infeas/{S.length}/{R.length}"
      else .viol "ev/infeas" s!"infeasible regions are not the complement of the feasible set: expected {want.length} regions, got {R.length}"
    | _, _ => .skip "parse"
  | "fs", [ps, cs, ng, as], [ss] =>
    match pPolyRaw? ps, pNat? cs, pNat? ng, pAsg? as, pVSet? ss with
    | some raw, some c, some ng, some av, some got =>
      match asgToZ av with
      | none => .skip "infinite value in assignment"
      | some a =>
        let p := reduced (MPoly.normalize none raw) a
        match Eval.feasible p yVar a c (ng ≠ 0) rootsCap with
        | none => .skip "feasible set inconclusive (size cap / fuel)"
        | some (rs, want) =>
          let tag := s!"ev/fs/{c}{if ng ≠ 0 then "n" else ""}/{asgKinds av}/r{rs.length}/i{want.length}"
          match setMatches rs want got with
          | none => .skip "cmp out of fuel"
          | some true => .ok tag
          | some false => .viol s!"ev/fs/{c}{if ng ≠ 0 then "n" else ""}" s!"feasible set differs: exact {want.map showSInt} over {rs.length} roots"
    | _, _, _, _, _ => .skip "parse"
  | "rfs", [ps, ks, cs, ng, as], [ss] =>
    match pPolyRaw? ps, pNat? ks, pNat? cs, pNat? ng, pAsg? as, pVSet? ss with
    | some raw, some k, some c, some ng, some av, some got =>
      match asgToZ av with
      | none => .skip "infinite value in assignment"
      | some a =>
        let p := reduced (MPoly.normalize none raw) a
        match Eval.rootsUnder p yVar a rootsCap with
        | none => .skip "roots inconclusive (size cap / fuel)"
        | some rs =>
          let want := Eval.rootFeasible rs.length k c (ng ≠ 0)
          let tag := s!"ev/rfs/{c}{if ng ≠ 0 then "n" else ""}/{if k < rs.length then "has-root" else "fewer-roots"}"
          match setMatches rs want got with
          | none => .skip "cmp out of fuel"
          | some true => .ok tag
          | some false => .viol s!"ev/rfs/{c}" s!"root-constraint set differs: exact {want.map showSInt} over {rs.length} roots"
    | _, _, _, _, _, _ => .skip "parse"
  | "rcons", [ps, ks, cs, as, ys], [b] =>
    -- lp_polynomial_root_constraint_evaluate with the main variable assigned to `ys`
    match pPolyRaw? ps, pNat? ks, pNat? cs, pAsg? as, pVal? ys, pInt? b with
    | some raw, some k, some c, some av, some yv, some b =>
      match asgToZ av, yv.toZ? with
      | some a, some y =>
        let p := reduced (MPoly.normalize none raw) a
        match Eval.rootsUnder p yVar a rootsCap with
        | none => .skip "roots inconclusive (size cap / fuel)"
        | some rs =>
          match rs[k]? with
          | none =>
            let tag := s!"ev/rcons/{c}/fewer-roots"
            if b = 0 then .ok tag else .viol tag s!"true although only {rs.length} roots exist (index {k})"
          | some r =>
            match Alg.cmp y.a r with
            | none => .skip "cmp out of fuel"
            | some w =>
              let tag := s!"ev/rcons/{c}/{if w = 0 then "at-root" else "off-root"}"
              if (b ≠ 0) = Eval.consistent c w then .ok tag
              else .viol tag s!"got {b}, the value compares {w} with root {k} of {rs.length}"
      | _, _ => .skip "infinite value"
    | _, _, _, _, _, _ => .skip "parse"
  | _, _, _ => checkEval op args res

end LP.Driver
