/-
  C11 / C12 — roots of a polynomial in its main variable under an assignment of the other variables, and the
  feasible sets of sign-condition and root constraints.
  Roots: candidates are the real roots of the eliminant G(y) (iterated Sylvester determinants eliminating the
  assigned variables); a candidate is accepted when the specialised polynomial changes sign across its isolating
  interval (certified root), rejected when interval evaluation excludes 0 (certified non-root), and decided by
  the algebraic zero test otherwise.  Feasible sets: the sweep over the 2n+1 cells.  Core Lean only.
-/
import LP.Model.Eval
namespace LP
open QPoly MPoly

namespace Eval

/-- coefficients of p in the variable y, low degree first -/
def coeffsIn (y : Nat) (p : MPoly) : List MPoly :=
  (List.range (MPoly.degreeIn y p + 1)).map (fun k => MPoly.coeffIn none y k p)

/-- does p(ν, ·) vanish identically? -/
def identicallyZero (p : MPoly) (y : Nat) (a : Asg) : Option Bool :=
  ((coeffsIn y p).mapM (fun c => exactSign c a)).map (fun l => l.all (· = 0))

/-- eliminant in y: every root of p(ν, ·) is a root of it (if it is not the zero polynomial) -/
def elimY (p : MPoly) (y : Nat) (a : Asg) : List Int :=
  let A := a.foldl (fun A xv =>
    if MPoly.degreeIn xv.1 A = 0 then A
    else resultantSpec none xv.1 (ZAlg.uni xv.1 xv.2.f) A) p
  ZAlg.dense y A

def cellAlg (G : QPoly) : Cell → Alg
  | .pt q => .rat q
  | .iv l u => .root G l u

/-- is the candidate a root of p(ν, ·)?  `cap`: size cap of the algebraic zero test -/
def isRootAt (p : MPoly) (y : Nat) (a : Asg) (GZ : List Int) (G : QPoly) (cap : Nat) (c : Cell) : Option Bool :=
  match c with
  | .pt q => (exactSign p ((y, ZAlg.ofRat q) :: a)).map (· == 0)
  | .iv l u =>
    match exactSign p ((y, ZAlg.ofRat l) :: a), exactSign p ((y, ZAlg.ofRat u) :: a) with
    | some sl, some su =>
      if sl * su < 0 then some true                      -- sign change: the only candidate inside is a root
      else
        let cand : Asg := (y, ⟨GZ, .root G l u⟩) :: a
        match signLoop p 40 cand (some [1]) with          -- interval evaluation only: certifies non-roots
        | some s => some (s == 0)
        | none =>
          if elimSize p cand > cap then none
          else (exactSign p cand).map (· == 0)
    | _, _ => none

/-! ### isolation by interval arithmetic alone (used when the eliminant degenerates to 0) -/

/-- drop the leading coefficients in y that vanish exactly under the assignment -/
def reduceLeading (p : MPoly) (y : Nat) (a : Asg) : Nat → Option MPoly
  | 0 => none
  | fuel+1 =>
    if p.isEmpty then some p else
    let d := MPoly.degreeIn y p
    let lc := MPoly.coeffIn none y d p
    match exactSign lc a with
    | none => none
    | some s =>
      if s ≠ 0 ∨ d = 0 then some p
      else reduceLeading (MPoly.sub none p (MPoly.shl none lc y d)) y a fuel

def boxY (a : Asg) (y : Nat) (lo hi : Rat) (x : Nat) : CI := if x = y then ⟨lo, hi⟩ else box a x

def absHi (J : CI) : Rat := max (QPoly.absQ J.lo) (QPoly.absQ J.hi)
def absLo (J : CI) : Rat := if 0 < J.lo then J.lo else if J.hi < 0 then -J.hi else 0

/-- Cauchy bound for the real roots of p(ν, ·) from enclosures of its coefficients; refines until the leading one is away from 0 -/
def rootBoundM (p : MPoly) (y : Nat) : Nat → Asg → Option (Rat × Asg)
  | 0, _ => none
  | fuel+1, a =>
    let d := MPoly.degreeIn y p
    let cs := coeffsIn y p
    let Js := cs.map (fun c => ievalM c (box a))
    let lcLo := absLo ((Js.getLast?).getD (CI.pt 0))
    if lcLo > 0 ∧ d > 0 then
      some (1 + (Js.dropLast.foldl (fun m J => max m (absHi J / lcLo)) 0), a)
    else (refineAll a).bind (rootBoundM p y fuel)

/-- roots of p(ν, ·) in the open interval (lo, hi): cells with exactly one (simple) root each.
    `budget` bounds the total number of boxes visited (multiple roots would otherwise split forever);
    returns the cells and the remaining budget -/
def isoLoopM (p dp : MPoly) (y : Nat) : Nat → Nat → Asg → Rat → Rat → Option (List Cell × Nat)
  | 0, _, _, _, _ => none
  | _, 0, _, _, _ => none
  | fuel+1, budget+1, a, lo, hi =>
    let J := ievalM p (boxY a y lo hi)
    if 0 < J.lo ∨ J.hi < 0 then some ([], budget)
    else if hi - lo < 1 / 65536 then none       -- clustered or multiple roots: this method cannot separate them, give up early
    else
      let J' := ievalM dp (boxY a y lo hi)
      if 0 < J'.lo ∨ J'.hi < 0 then
        -- strictly monotone on [lo, hi]
        match exactSign p ((y, ZAlg.ofRat lo) :: a), exactSign p ((y, ZAlg.ofRat hi) :: a) with
        | some sl, some su => if sl * su < 0 then some ([Cell.iv lo hi], budget) else some ([], budget)
        | _, _ => none
      else
        let m := (lo + hi) / 2
        let a' := if fuel % 2 = 0 then (refineAll a).getD a else a
        match exactSign p ((y, ZAlg.ofRat m) :: a) with
        | none => none
        | some sm =>
          match isoLoopM p dp y fuel budget a' lo m with
          | none => none
          | some (L, b1) =>
            match isoLoopM p dp y fuel b1 a' m hi with
            | none => none
            | some (R, b2) => some (L ++ (if sm = 0 then [Cell.pt m] else []) ++ R, b2)

/-- the distinct real roots of p(ν, ·) when all of them are simple; independent of any eliminant -/
def rootsByIntervals (p : MPoly) (y : Nat) (a : Asg) : Option (List Cell) :=
  match reduceLeading p y a 12 with
  | none => none
  | some q =>
    if MPoly.degreeIn y q = 0 then some [] else
    match rootBoundM q y 60 a with
    | none => none
    | some (B, a') => (isoLoopM q (MPoly.derivative none q y) y 60 400 a' (-B) B).map (·.1)

/-- the distinct real roots of p(ν, ·) in increasing order (none if it vanishes identically or is constant) -/
def rootsUnder (p : MPoly) (y : Nat) (a : Asg) (cap : Nat) : Option (List Alg) :=
  match identicallyZero p y a with
  | none => none
  | some true => some []
  | some false =>
    let GZ := elimY p y a
    if GZ.all (· = 0) then none else
    match sqfreePart (ZAlg.toQ GZ) with
    | none => none
    | some G =>
      if G.length ≤ 1 then some [] else
      match realRoots G with
      | none => none
      | some cells =>
        (cells.mapM (fun c => (isRootAt p y a GZ G cap c).map (fun b => (b, cellAlg G c)))).map
          (fun l => (l.filter (·.1)).map (·.2))

/-! ### the sweep -/

/-- end point of a feasible interval: −∞, the i-th root, +∞ -/
inductive EPt
  | ninf
  | root (i : Nat)
  | pinf
deriving Repr, DecidableEq

structure SInt where
  lo : EPt
  loOpen : Bool
  hi : EPt
  hiOpen : Bool
deriving Repr, DecidableEq

/-- lower boundary of cell j (cells: 0 = gap before root 0, 1 = root 0, 2 = gap, …) -/
def cellLo (j : Nat) : EPt × Bool :=
  if j % 2 = 1 then (.root (j / 2), false) else if j = 0 then (.ninf, true) else (.root (j / 2 - 1), true)
/-- upper boundary of cell j of 2n+1 cells -/
def cellHi (n j : Nat) : EPt × Bool :=
  if j % 2 = 1 then (.root (j / 2), false) else if j = 2 * n then (.pinf, true) else (.root (j / 2), true)

/-- maximal runs of satisfied cells; `start` = index of the first cell of `sat` -/
def sweepAux (n : Nat) : Nat → Option Nat → List Bool → List SInt
  | j, none, [] => []
  | j, some s, [] => [⟨(cellLo s).1, (cellLo s).2, (cellHi n (j - 1)).1, (cellHi n (j - 1)).2⟩]
  | j, none, b :: rest => if b then sweepAux n (j + 1) (some j) rest else sweepAux n (j + 1) none rest
  | j, some s, b :: rest =>
    if b then sweepAux n (j + 1) (some s) rest
    else ⟨(cellLo s).1, (cellLo s).2, (cellHi n (j - 1)).1, (cellHi n (j - 1)).2⟩ :: sweepAux n (j + 1) none rest

/-- feasible set from the satisfaction vector of the 2n+1 cells -/
def sweep (n : Nat) (sat : List Bool) : List SInt := sweepAux n 0 none sat

def negateCond (c : Nat) : Nat :=
  match c with | 0 => 5 | 1 => 4 | 2 => 3 | 3 => 2 | 4 => 1 | _ => 0

/-- make consecutive isolating intervals disjoint with a gap, so that rational sample points exist -/
def separate : Nat → List Alg → Option (List Alg)
  | 0, _ => none
  | fuel+1, rs =>
    if (rs.zip rs.tail).all (fun p => p.1.hi < p.2.lo) then some rs
    else (rs.mapM Alg.refine).bind (separate fuel)

/-- sample points after the root `prev`: one between each pair of consecutive roots, one beyond the last -/
def samplesAux : Alg → List Alg → List Rat
  | prev, [] => [prev.hi + 1]
  | prev, r :: rest => (prev.hi + r.lo) / 2 :: samplesAux r rest

/-- rational sample points: one per open cell -/
def samples (rs : List Alg) : List Rat :=
  match rs with
  | [] => [0]
  | r0 :: rest => (r0.lo - 1) :: samplesAux r0 rest

/-- s0, 0, s1, 0, …, 0, sn -/
def interleave (ss : List Int) : List Int :=
  match ss with
  | [] => []
  | s0 :: rest => s0 :: rest.flatMap (fun s => [0, s])

/-- signs of p(ν, ·) on the 2n+1 cells -/
def cellSigns (p : MPoly) (y : Nat) (a : Asg) (rs : List Alg) : Option (List Int) :=
  ((samples rs).mapM (fun q => exactSign p ((y, ZAlg.ofRat q) :: a))).map interleave

/-- feasible set of `p(ν, y) cond 0` (negated if `neg`) -/
def feasible (p : MPoly) (y : Nat) (a : Asg) (cond : Nat) (neg : Bool) (cap : Nat) : Option (List Alg × List SInt) :=
  match rootsUnder p y a cap with
  | none => none
  | some rs0 =>
    match separate 100 rs0 with
    | none => none
    | some rs =>
      match cellSigns p y a rs with
      | none => none
      | some signs =>
        let c := if neg then negateCond cond else cond
        some (rs, sweep rs.length (signs.map (consistent c)))

/-- feasible set of the root constraint `y cond root_k(p(ν, ·))` -/
def rootFeasible (n k : Nat) (cond : Nat) (neg : Bool) : List SInt :=
  if k ≥ n then (if neg then [⟨.ninf, true, .pinf, true⟩] else [])
  else
    let c := if neg then negateCond cond else cond
    match c with
    | 0 => [⟨.ninf, true, .root k, true⟩]
    | 1 => [⟨.ninf, true, .root k, false⟩]
    | 2 => [⟨.root k, false, .root k, false⟩]
    | 3 => [⟨.ninf, true, .root k, true⟩, ⟨.root k, true, .pinf, true⟩]
    | 4 => [⟨.root k, true, .pinf, true⟩]
    | _ => [⟨.root k, false, .pinf, true⟩]

end Eval
end LP
