/-
  C15 — mirror of `coefficient_interval_value` (src/polynomial/coefficient.c): the value of a polynomial over a box of
  intervals, computed by powers in the recursive representation (top variable first):
      value(C) = ((0 + x^0·value(c_0)) + x^1·value(c_1)) + …      (zero coefficients skipped)
  and of `lp_sign_condition_consistent_interval` (src/utils/sign_condition.c).
  Core Lean only.
-/
import LP.Model.Interval
import LP.Model.MPoly
import LP.Model.VInterval
namespace LP

namespace QI

/-- is the polynomial a constant? / its value -/
def constVal (p : MPoly) : Option Int :=
  match p with
  | [] => some 0
  | [([], c)] => some c
  | _ => none

/-- sum over the powers of the top variable `x`; `sub` evaluates a coefficient (a polynomial in the lower variables) -/
def sumPowers (X : QI) (x : Nat) (p : MPoly) (sub : MPoly → Option QI) : List Nat → QI → Option QI
  | [], acc => some acc
  | i :: is, acc =>
    let c := MPoly.coeffIn none x i p
    if c.isEmpty then sumPowers X x p sub is acc
    else
      match sub c with
      | none => none
      | some V => sumPowers X x p sub is (QI.add acc (QI.mul (QI.pow X i) V))

/-- `vars`: the variables from the top of the order downwards; `box`: the interval assignment.
    `none` when the polynomial mentions a variable outside `vars`. -/
def polyValue (box : Nat → QI) : List Nat → MPoly → Option QI
  | [], p => (constVal p).map (fun c => QI.point c)
  | x :: rest, p =>
    if MPoly.degreeIn x p = 0 then polyValue box rest p            -- x does not occur: the C object has a lower top variable
    else sumPowers (box x) x p (polyValue box rest) (List.range (MPoly.degreeIn x p + 1)) (QI.point 0)

end QI

namespace VI

/-- `lp_sign_condition_consistent_interval`; conditions 0..5 = `<, <=, ==, !=, >, >=` -/
def consistentInterval (c : Nat) (I : VI) : Bool :=
  if I.isPoint then
    let s := EP.sgn I.a
    match c with
    | 0 => s < 0 | 1 => s ≤ 0 | 2 => s = 0 | 3 => s ≠ 0 | 4 => s > 0 | _ => s ≥ 0
  else
    let sa := EP.sgn I.a
    let sb := EP.sgn I.b
    match c with
    | 0 => sb < 0 || (sb = 0 && I.bOpen)
    | 1 => sb ≤ 0
    | 2 => false
    | 3 => (sb < 0 || (sb = 0 && I.bOpen)) || (sa > 0 || (sa = 0 && I.aOpen))
    | 4 => sa > 0 || (sa = 0 && I.aOpen)
    | _ => sa ≥ 0

end VI
end LP
