/* C19 harness (reference counting): histories of construct / attach / detach / destroy over rings and
 * contexts and their holders; after every step the ref_count fields of every live ring and context are
 * reported.  An object is freed exactly when its last holder goes away (freed objects are printed as x and
 * never touched again: the sanitizers watch for use-after-free, double free and leaks at exit).
 *   refs run <ctx->ring map> <ops> => <snapshot;snapshot;...>
 * op >P:c:c2 : an external polynomial that holds context c is the OUTPUT of an operation whose inputs live in context c2
 * (lp_polynomial_set_context / lp_polynomial_swap move the reference); the result must equal the one computed into a
 * fresh output and carry context c2 - otherwise the snapshot is replaced by !<operation>.
 */
#include "hpoly.h"
#include <variable_list.h>
#include <upolynomial.h>
#include <algebraic_number.h>
#include <value.h>
#include <assignment.h>
#include <polynomial_vector.h>
#include <feasibility_set_int.h>

#define NR 3
#define NC 4
#define MAXH 64
typedef struct { char kind; int target; void* obj; } holder;

static lp_variable_t mx, my;
static lp_polynomial_t* mem_poly(const lp_polynomial_context_t* ctx, int want_x) {
  lp_polynomial_t* p = lp_polynomial_new(ctx);
  lp_integer_t c; lp_integer_construct(&c);
  int nt = 1 + (int)rnd(4);
  for (int t = 0; t < nt; ++t) {
    lp_integer_assign_int(lp_Z, &c, rnd_in(-6, 6)); if (!lp_integer_sgn(lp_Z, &c)) lp_integer_assign_int(lp_Z, &c, 1);
    lp_polynomial_t* m = lp_polynomial_alloc(); lp_polynomial_construct_simple(m, ctx, &c, mx, (want_x && t == 0) ? 1 + rnd(2) : rnd(3));
    if (chance(50)) { lp_integer_t one; lp_integer_construct_from_int(lp_Z, &one, 1); lp_polynomial_t* s = lp_polynomial_alloc();
      lp_polynomial_construct_simple(s, ctx, &one, my, 1 + rnd(2)); lp_polynomial_mul(m, m, s); lp_polynomial_delete(s); lp_integer_destruct(&one); }
    lp_polynomial_add(p, p, m); lp_polynomial_delete(m);
  }
  lp_integer_destruct(&c);
  return p;
}
#define NMOVE 21
static const char* MOVE_NAME[NMOVE] = { "add", "sub", "mul", "neg", "mul_integer", "pow", "assign", "derivative", "shl", "reductum",
  "get_coefficient", "div", "rem", "prem", "gcd", "lcm", "cont", "pp", "resultant", "psc", "reduce_degree_Zp" };
/* the operation k with inputs A, B (context of A) written into O */
static void move_apply(int k, lp_polynomial_t* O, const lp_polynomial_t* A, const lp_polynomial_t* B, const lp_polynomial_t* AB, unsigned n) {
  lp_integer_t c; lp_integer_construct_from_int(lp_Z, &c, 3);
  switch (k) {
  case 0: lp_polynomial_add(O, A, B); break;
  case 1: lp_polynomial_sub(O, A, B); break;
  case 2: lp_polynomial_mul(O, A, B); break;
  case 3: lp_polynomial_neg(O, A); break;
  case 4: lp_polynomial_mul_integer(O, A, &c); break;
  case 5: lp_polynomial_pow(O, A, n); break;
  case 6: lp_polynomial_assign(O, A); break;
  case 7: lp_polynomial_derivative(O, A); break;
  case 8: lp_polynomial_shl(O, A, n); break;
  case 9: lp_polynomial_reductum(O, A); break;
  case 10: lp_polynomial_get_coefficient(O, A, n); break;
  case 11: lp_polynomial_div(O, AB, B); break;
  case 12: lp_polynomial_rem(O, AB, B); break;
  case 13: lp_polynomial_prem(O, A, B); break;
  case 14: lp_polynomial_gcd(O, AB, B); break;
  case 15: lp_polynomial_lcm(O, A, B); break;
  case 16: lp_polynomial_cont(O, A); break;
  case 17: lp_polynomial_pp(O, A); break;
  case 18: lp_polynomial_resultant(O, A, B); break;
  case 19: { /* the last principal subresultant coefficient goes to O, the others to fresh objects */
    size_t da = lp_polynomial_degree(A), db = lp_polynomial_degree(B);
    const lp_polynomial_t* H = da >= db ? A : B; const lp_polynomial_t* L = da >= db ? B : A;
    size_t sz = lp_polynomial_degree(L) + 1;
    lp_polynomial_t** out = (lp_polynomial_t**)malloc(sz * sizeof(lp_polynomial_t*));
    for (size_t i = 0; i < sz; ++i) out[i] = i == 0 ? O : lp_polynomial_new(lp_polynomial_get_context(A));
    lp_polynomial_psc(out, H, L);
    for (size_t i = 1; i < sz; ++i) lp_polynomial_delete(out[i]);
    free(out);
    break; }
  default: lp_polynomial_reduce_degree_Zp(O, A); break;
  }
  lp_integer_destruct(&c);
}


static void mem_case(void) {
  lp_variable_db_t* db = lp_variable_db_new(); lp_variable_order_t* ord = lp_variable_order_new();
  lp_variable_t x = lp_variable_db_new_variable(db, "x"); lp_variable_t y = lp_variable_db_new_variable(db, "y");
  lp_variable_order_push(ord, y); lp_variable_order_push(ord, x); mx = x; my = y;
  int broken = 0;
  static const char* mods[NR] = { "7", "13", "101" };
  lp_int_ring_t* ring[NR]; int ring_live[NR]; long ring_handles[NR];
  lp_polynomial_context_t* ctx[NC]; int ctx_ring[NC]; long ctx_handles[NC]; int ctx_created[NC];
  long ring_expect[NR], ctx_expect[NC];       /* only used to know when an object has been freed */
  holder hs[MAXH]; int nh = 0;
  for (int r = 0; r < NR; ++r) { ring[r] = 0; ring_live[r] = 0; ring_handles[r] = 0; ring_expect[r] = 0; }
  for (int c = 0; c < NC; ++c) { ctx[c] = 0; ctx_ring[c] = (int)rnd(NR); ctx_handles[c] = 0; ctx_expect[c] = 0; ctx_created[c] = 0; }
  int nops = 6 + (int)rnd(40);
  sb_begin("refs", "run"); sb_sp();
  for (int c = 0; c < NC; ++c) { if (c) sb_str(","); sb_long(ctx_ring[c]); }
  sb_sp();
  char snaps[1 << 15]; size_t sl = 0; snaps[0] = 0;
  int first = 1;
  for (int k = 0; k < nops; ++k) {
    char opbuf[32]; opbuf[0] = 0;
    unsigned w = rnd(100);
    int r = (int)rnd(NR), c = (int)rnd(NC);
    if (w < 12) { /* ring handle: create or attach */
      if (!ring_live[r]) { mpz_t M; mpz_init_set_str(M, mods[r], 10); ring[r] = lp_int_ring_create(M, 1); mpz_clear(M); ring_live[r] = 1; }
      else lp_int_ring_attach(ring[r]);
      ring_handles[r]++; ring_expect[r]++; snprintf(opbuf, sizeof opbuf, "+R:%d", r);
    } else if (w < 20) { if (!ring_live[r] || !ring_handles[r]) continue;
      ring_handles[r]--; ring_expect[r]--; snprintf(opbuf, sizeof opbuf, "-R:%d", r);
      lp_int_ring_detach(ring[r]); if (!ring_expect[r]) ring_live[r] = 0;
    } else if (w < 32) { /* context handle */
      int rr = ctx_ring[c]; if (!ring_live[rr]) continue;
      if (!ctx_expect[c]) { ctx[c] = lp_polynomial_context_new(ring[rr], db, ord); }
      else lp_polynomial_context_attach(ctx[c]);
      ctx_handles[c]++; ctx_expect[c]++; ring_expect[rr]++; snprintf(opbuf, sizeof opbuf, "+C:%d", c);
    } else if (w < 40) { if (!ctx_expect[c] || !ctx_handles[c]) continue;
      int rr = ctx_ring[c];
      ctx_handles[c]--; ctx_expect[c]--; ring_expect[rr]--; snprintf(opbuf, sizeof opbuf, "-C:%d", c);
      lp_polynomial_context_detach(ctx[c]); if (!ring_expect[rr]) ring_live[rr] = 0;
    } else if (w < 66 && nh < MAXH) { /* new holder */
      unsigned t = rnd(4);
      if (t == 0) { if (!ctx_expect[c]) continue; lp_polynomial_t* p = lp_polynomial_new(ctx[c]); lp_polynomial_set_external(p);
        hs[nh].kind = 'P'; hs[nh].target = c; hs[nh].obj = p; nh++; ctx_expect[c]++; ring_expect[ctx_ring[c]]++; snprintf(opbuf, sizeof opbuf, "+P:%d", c); }
      else if (t == 1) { if (!ctx_expect[c]) continue; lp_polynomial_vector_t* v = lp_polynomial_vector_new(ctx[c]);
        hs[nh].kind = 'V'; hs[nh].target = c; hs[nh].obj = v; nh++; ctx_expect[c]++; ring_expect[ctx_ring[c]]++; snprintf(opbuf, sizeof opbuf, "+V:%d", c); }
      else if (t == 2) { if (!ring_live[r]) continue; lp_upolynomial_t* u = lp_upolynomial_construct_power(ring[r], 1 + rnd(3), 1);
        hs[nh].kind = 'U'; hs[nh].target = r; hs[nh].obj = u; nh++; ring_expect[r]++; snprintf(opbuf, sizeof opbuf, "+U:%d", r); }
      else { if (!ring_live[r]) continue; lp_feasibility_set_int_t* s = chance(50) ? lp_feasibility_set_int_new_full(ring[r]) : lp_feasibility_set_int_new_empty(ring[r]);
        hs[nh].kind = 'F'; hs[nh].target = r; hs[nh].obj = s; nh++; ring_expect[r]++; snprintf(opbuf, sizeof opbuf, "+F:%d", r); }
    } else if (w < 82) { /* an external polynomial becomes the output of an operation on (possibly) another context */
      if (!nh) continue;
      int i = (int)rnd(nh); if (hs[i].kind != 'P') continue;
      int c0 = hs[i].target, c2 = c; if (!ctx_expect[c2]) continue;
      lp_polynomial_t* P = (lp_polynomial_t*)hs[i].obj;
      if (chance(60)) { /* give the output a non-trivial prior content (in its own context) */
        lp_polynomial_t* t = mem_poly(ctx[c0], 0); lp_polynomial_add(P, P, t); lp_polynomial_delete(t); }
      int k2 = (int)rnd(NMOVE); unsigned n = rnd(3);
      lp_polynomial_t* A = mem_poly(ctx[c2], 1); lp_polynomial_t* B = mem_poly(ctx[c2], 1);
      if (lp_polynomial_is_zero(A) || lp_polynomial_is_zero(B) || lp_polynomial_is_constant(A) || lp_polynomial_is_constant(B) ||
          lp_polynomial_top_variable(A) != x || lp_polynomial_top_variable(B) != x) k2 = (int)rnd(3);
      else if (lp_polynomial_degree(A) < lp_polynomial_degree(B)) { lp_polynomial_t* t = A; A = B; B = t; }
      lp_polynomial_t* AB = lp_polynomial_new(ctx[c2]); lp_polynomial_mul(AB, A, B);
      lp_polynomial_t* F = lp_polynomial_new(ctx[c2]);
      NOTE("move %s c%d -> c%d", MOVE_NAME[k2], c0, c2);
      move_apply(k2, F, A, B, AB, n);
      move_apply(k2, P, A, B, AB, n);
      int good = lp_polynomial_get_context(P) == ctx[c2] && lp_polynomial_eq(P, F);
      lp_polynomial_delete(A); lp_polynomial_delete(B); lp_polynomial_delete(AB); lp_polynomial_delete(F);
      snprintf(opbuf, sizeof opbuf, ">P:%d:%d", c0, c2);
      if (!good) { /* report and stop the history: the bookkeeping below would no longer describe the library's state */
        if (!first) sb_str(","); first = 0; sb_str(opbuf);
        if (sl) snaps[sl++] = ';';
        sl += (size_t)snprintf(snaps + sl, sizeof snaps - sl, "!%s", MOVE_NAME[k2]);
        broken = 1; break;
      }
      hs[i].target = c2;
      ctx_expect[c0]--; ring_expect[ctx_ring[c0]]--; ctx_expect[c2]++; ring_expect[ctx_ring[c2]]++;
      if (!ring_expect[ctx_ring[c0]]) ring_live[ctx_ring[c0]] = 0;
    } else if (w < 88) { /* lp_upolynomial_set_ring: the univariate polynomial gives back its ring and takes another (or the same) one */
      if (!nh) continue;
      int i = (int)rnd(nh); if (hs[i].kind != 'U') continue;
      int r0 = hs[i].target, r2 = chance(40) ? r0 : r; if (!ring_live[r2]) continue;
      NOTE("set_ring r%d -> r%d", r0, r2);
      lp_upolynomial_set_ring((lp_upolynomial_t*)hs[i].obj, ring[r2]);
      snprintf(opbuf, sizeof opbuf, ">U:%d:%d", r0, r2);
      hs[i].target = r2;
      ring_expect[r0]--; ring_expect[r2]++;
      if (!ring_expect[r0]) ring_live[r0] = 0;
    } else { if (!nh) continue;
      int i = (int)rnd(nh); holder h = hs[i]; hs[i] = hs[--nh];
      snprintf(opbuf, sizeof opbuf, "-%c:%d", h.kind, h.target);
      int rr = (h.kind == 'P' || h.kind == 'V') ? ctx_ring[h.target] : h.target;
      if (h.kind == 'P') { lp_polynomial_delete((lp_polynomial_t*)h.obj); ctx_expect[h.target]--; }
      else if (h.kind == 'V') { lp_polynomial_vector_delete((lp_polynomial_vector_t*)h.obj); ctx_expect[h.target]--; }
      else if (h.kind == 'U') lp_upolynomial_delete((lp_upolynomial_t*)h.obj);
      else lp_feasibility_set_int_delete((lp_feasibility_set_int_t*)h.obj);
      ring_expect[rr]--; if (!ring_expect[rr]) ring_live[rr] = 0;
    }
    if (!opbuf[0]) continue;
    if (!first) sb_str(","); first = 0; sb_str(opbuf); NOTE("%.3000s", sb_buf);
    /* snapshot of the real counters (freed objects are not touched) */
    if (sl) snaps[sl++] = ';';
    for (int i = 0; i < NR; ++i) { if (i) snaps[sl++] = ','; if (ring_live[i]) sl += (size_t)snprintf(snaps + sl, sizeof snaps - sl, "%zu", ring[i]->ref_count); else snaps[sl++] = 'x'; }
    for (int i = 0; i < NC; ++i) { snaps[sl++] = ','; if (ctx_expect[i]) sl += (size_t)snprintf(snaps + sl, sizeof snaps - sl, "%zu", ctx[i]->ref_count); else snaps[sl++] = 'x'; }
    snaps[sl] = 0;
  }
  if (first) { sb_reset(); }
  else { sb_arrow(); sb_sp(); sb_str(snaps); sb_emit(); }
  (void)broken;
  /* release everything that is still held */
  while (nh) { holder h = hs[--nh];
    if (h.kind == 'P') lp_polynomial_delete((lp_polynomial_t*)h.obj); else if (h.kind == 'V') lp_polynomial_vector_delete((lp_polynomial_vector_t*)h.obj);
    else if (h.kind == 'U') lp_upolynomial_delete((lp_upolynomial_t*)h.obj); else lp_feasibility_set_int_delete((lp_feasibility_set_int_t*)h.obj); }
  for (int i = 0; i < NC; ++i) while (ctx_handles[i]-- > 0) lp_polynomial_context_detach(ctx[i]);
  for (int i = 0; i < NR; ++i) while (ring_handles[i]-- > 0) lp_int_ring_detach(ring[i]);
  lp_variable_order_detach(ord); lp_variable_db_detach(db);
}

/* variable database: ids handed out by new_variable and ids chosen by the caller (add_variable) must stay distinct, every
 * name must be retrievable, and the database must free everything when its last holder detaches (LeakSanitizer)
 *   refs vdb <op,op,...> => <id=name;...>       op = n<id>:<name> (new, id returned) | a<id>:<name> (add with given id) */
static void vdb_case(void) {
  lp_variable_db_t* db = lp_variable_db_new();
  int nops = 1 + (int)rnd(14);
  lp_variable_t ids[64]; int nid = 0;
  sb_begin("refs", "vdb"); sb_sp();
  for (int k = 0; k < nops; ++k) {
    char nm[16]; snprintf(nm, sizeof nm, "v%d", k);
    if (k) sb_str(",");
    if (chance(65)) { lp_variable_t v = lp_variable_db_new_variable(db, nm); sb_str("n"); sb_ulong(v); sb_str(":"); sb_str(nm); ids[nid++] = v; }
    else {
      lp_variable_t v = chance(15) ? 90 + rnd(40) : rnd(24);      /* sometimes beyond the initial capacity (100) */
      int used = 0; for (int j = 0; j < nid; ++j) if (ids[j] == v) used = 1;
      if (used) { lp_variable_t w = lp_variable_db_new_variable(db, nm); sb_str("n"); sb_ulong(w); sb_str(":"); sb_str(nm); ids[nid++] = w; }
      else { lp_variable_db_add_variable(db, v, nm); sb_str("a"); sb_ulong(v); sb_str(":"); sb_str(nm); ids[nid++] = v; }
    }
  }
  sb_arrow(); sb_sp();
  for (int j = 0; j < nid; ++j) { if (j) sb_str(";"); sb_ulong(ids[j]); sb_str("="); const char* g = lp_variable_db_get_name(db, ids[j]); sb_str(g ? g : "(null)"); }
  sb_emit();
  lp_variable_db_detach(db);
}

/* variable list: histories of push / remove / pop / order / contains; the index answered for every variable must agree with
 * a shadow of "pushed and neither removed nor popped", and every access stays inside the list (sanitizers)
 *   refs vlist <op,op,...> => ok | <first disagreement> */
static void vlist_case(void) {
  lp_variable_order_t* ord = lp_variable_order_new();
  for (lp_variable_t v = 0; v < 12; ++v) lp_variable_order_push(ord, v);
  lp_variable_list_t L; lp_variable_list_construct(&L);
  int in[12] = { 0 };               /* shadow: present */
  long stack[64]; int sp = 0;        /* shadow of the slots (-1 = hole left by remove) */
  char bad[128]; bad[0] = 0;
  int nops = 4 + (int)rnd(24);
  sb_begin("refs", "vlist"); sb_sp();
  for (int k = 0; k < nops && !bad[0]; ++k) {
    unsigned w = rnd(100); lp_variable_t v = rnd(12);
    if (k) sb_str(",");
    if (w < 45 && sp < 60) { if (in[v]) { sb_str("skip"); continue; } lp_variable_list_push(&L, v); in[v] = 1; stack[sp++] = (long)v; sb_str("push:"); sb_ulong(v); }
    else if (w < 65) { lp_variable_list_remove(&L, v); if (in[v]) { in[v] = 0; for (int j = 0; j < sp; ++j) if (stack[j] == (long)v) stack[j] = -1; } sb_str("remove:"); sb_ulong(v); }
    else if (w < 85) { if (!sp) { sb_str("skip"); continue; } lp_variable_list_pop(&L); --sp; if (stack[sp] >= 0) in[stack[sp]] = 0; sb_str("pop"); }
    else { lp_variable_list_order(&L, ord); int t = 0; for (int j = 0; j < sp; ++j) if (stack[j] >= 0) stack[t++] = stack[j]; sp = t;
      /* sorted by the order 0 < 1 < .. */
      for (int i = 0; i < sp; ++i) for (int j = i + 1; j < sp; ++j) if (stack[j] < stack[i]) { long x = stack[i]; stack[i] = stack[j]; stack[j] = x; }
      sb_str("order"); }
    if (lp_variable_list_size(&L) != (size_t)sp) snprintf(bad, sizeof bad, "size-%zu-expected-%d-after-op-%d", lp_variable_list_size(&L), sp, k);
    for (lp_variable_t x = 0; x < 12 && !bad[0]; ++x) {
      int idx = lp_variable_list_index(&L, x);
      if ((idx != -1) != (in[x] != 0)) snprintf(bad, sizeof bad, "index-of-%zu-is-%d-after-op-%d", (size_t)x, idx, k);
      else if (idx != -1 && (idx >= sp || stack[idx] != (long)x)) snprintf(bad, sizeof bad, "index-of-%zu-points-to-the-wrong-slot-after-op-%d", (size_t)x, k);
    }
  }
  sb_arrow(); sb_sp(); sb_str(bad[0] ? bad : "ok"); sb_emit();
  lp_variable_list_destruct(&L);
  lp_variable_order_detach(ord);
}

/* assignment: values are set from fresh values and from the assignment's own slots (copy one variable's value to another,
 * including to a variable beyond the current size, and onto itself); every slot must hold the value its history says
 *   refs asg <op,op,...> => ok | <first disagreement> */
static void asg_case(void) {
  lp_variable_db_t* db = lp_variable_db_new();
  lp_assignment_t* m = lp_assignment_new(db);
  enum { NV = 300 };
  lp_value_t shadow[NV]; for (int i = 0; i < NV; ++i) lp_value_construct_none(&shadow[i]);
  char bad[128]; bad[0] = 0;
  int nops = 3 + (int)rnd(16);
  sb_begin("refs", "asg"); sb_sp();
  for (int k = 0; k < nops && !bad[0]; ++k) {
    unsigned w = rnd(100);
    /* mostly small indices, sometimes far beyond the current size (the array grows) */
    lp_variable_t x = chance(75) ? rnd(6) : rnd(NV), y = chance(75) ? rnd(6) : rnd(NV);
    if (k) sb_str(",");
    if (w < 40) { /* fresh value: integer, rational or sqrt2-like algebraic */
      lp_value_t v; unsigned t = rnd(3);
      if (t == 0) { lp_integer_t z; lp_integer_construct_from_int(lp_Z, &z, rnd_in(-9, 9)); lp_value_construct(&v, LP_VALUE_INTEGER, &z); lp_integer_destruct(&z); }
      else if (t == 1) { lp_rational_t q; lp_rational_construct_from_int(&q, rnd_in(-9, 9), 1 + rnd(7)); lp_value_construct(&v, LP_VALUE_RATIONAL, &q); lp_rational_destruct(&q); }
      else { long c[3] = { -(long)(2 + rnd(5)), 0, 1 }; lp_upolynomial_t* f = lp_upolynomial_construct_from_long(lp_Z, 2, c);
        lp_algebraic_number_t r[2]; size_t n = 0; lp_upolynomial_roots_isolate(f, r, &n);
        lp_value_construct(&v, LP_VALUE_ALGEBRAIC, &r[n - 1]); for (size_t i = 0; i < n; ++i) lp_algebraic_number_destruct(&r[i]); lp_upolynomial_delete(f); }
      lp_assignment_set_value(m, x, &v); lp_value_assign(&shadow[x], &v); lp_value_destruct(&v);
      sb_str("set:"); sb_ulong(x);
    } else if (w < 80) { /* copy slot x to slot y through the assignment's own storage */
      lp_value_t keep; lp_value_construct_copy(&keep, &shadow[x]);
      if (lp_assignment_get_value(m, x)->type == LP_VALUE_NONE) { lp_value_destruct(&keep); sb_str("skip"); continue; }
      lp_assignment_set_value(m, y, lp_assignment_get_value(m, x));
      lp_value_assign(&shadow[y], &keep); lp_value_destruct(&keep);
      sb_str("copy:"); sb_ulong(x); sb_str(">"); sb_ulong(y);
    } else { lp_assignment_set_value(m, x, 0); lp_value_destruct(&shadow[x]); lp_value_construct_none(&shadow[x]); sb_str("unset:"); sb_ulong(x); }
    for (int i = 0; i < NV && !bad[0]; ++i) {
      const lp_value_t* g = lp_assignment_get_value(m, (lp_variable_t)i);
      int same = (g->type == LP_VALUE_NONE) == (shadow[i].type == LP_VALUE_NONE) && (g->type == LP_VALUE_NONE || lp_value_cmp(g, &shadow[i]) == 0);
      if (!same) snprintf(bad, sizeof bad, "slot-%d-differs-after-op-%d", i, k);
    }
  }
  sb_arrow(); sb_sp(); sb_str(bad[0] ? bad : "ok"); sb_emit();
  for (int i = 0; i < NV; ++i) lp_value_destruct(&shadow[i]);
  lp_assignment_delete(m); lp_variable_db_detach(db);
}

int main(int argc, char** argv) {
  uint64_t seed = argc > 1 ? strtoull(argv[1], 0, 10) : 1;
  long n = argc > 2 ? atol(argv[2]) : 1000;
  long only = argc > 3 ? atol(argv[3]) : -1;
  long start = argc > 4 ? atol(argv[4]) : 0;
  lpv_init();
  for (long i = 0; i < n; ++i) {
    if ((only >= 0 && i != only) || i < start) continue;
    lpv_begin_case(seed, i);
    if (i % 8 == 7) vdb_case(); else if (i % 8 == 3) vlist_case(); else if (i % 8 == 5) asg_case(); else mem_case();
  }
  free(sb_buf);
  return 0;
}
