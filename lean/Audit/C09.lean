import LP.Props.C09
#print axioms LP.Alg.C09_refine
#print axioms LP.Alg.C09_refineAt
#print axioms LP.Alg.C09_reducePoly
#print axioms LP.Alg.C09_restore
#print axioms LP.Alg.C09_step
#print axioms LP.Alg.C09_history
#print axioms LP.C09_transition_sound
