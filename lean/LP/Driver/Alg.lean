import LP.Model.AlgOps
import LP.Driver.Roots
namespace LP.Driver
open LP LP.QPoly

def RawAlg.toZ (r : RawAlg) : ZAlg :=
  match r.f with
  | none => ZAlg.ofRat r.l
  | some cs => ⟨cs, .root (upToQ cs) r.l r.u⟩

/-- normalisation promised by `lp_algebraic_number_construct`: interval shorter than 1 without an integer inside -/
def RawAlg.normOk (r : RawAlg) : Bool :=
  match r.f with
  | none => true
  | some _ => decide (r.u - r.l < 1) && decide (r.u ≤ ((r.l.floor + 1 : Int) : Rat))

/-- full representation check of an algebraic number produced by the library -/
def algOk (r : RawAlg) : Verdict :=
  match r.reprOk with
  | some msg => .viol "alg/repr" msg
  | none =>
    if !r.normOk then .viol "alg/repr" s!"interval {showRat r.l}..{showRat r.u} not normalised" else
    match Alg.valid r.toAlg with
    | none => .skip "validity out of fuel"
    | some false => .viol "alg/repr" "interval does not isolate exactly one root"
    | some true => .ok ""

def degZ (z : ZAlg) : Nat := z.f.length - 1

def judgeOpEq (tag : String) (op : ZAlg.Op) (x y t : ZAlg) (cap : Nat) : Verdict :=
  if (match op with | .pow n => degZ x + n | _ => degZ x + degZ y) > cap then .skip "eliminant size cap" else
  match ZAlg.opEq op x y t with
  | none => .skip s!"{tag}: inconclusive"
  | some true => .ok tag
  | some false => .viol tag "result is not the exact value"

def kindOf (r : RawAlg) : String := match r.f with | none => "pt" | some cs => s!"d{cs.length - 1}"

def cmpName (c : Int) : String := if c < 0 then "lt" else if c = 0 then "eq" else "gt"

/-- operands are pool objects that earlier calls may have refined in place: their cached state must still be sound -/
def operandsOk (args : List String) : Option String :=
  (args.filterMap pRawAlg?).findSome? (fun r => r.reprOk.map (fun m => s!"operand {showRawAlg r}: {m}"))

def checkAlgCore (op : String) (args res : List String) : Verdict :=
  let cap := 7
  match op, args.mapM pRawAlg?, res with
  | "add", some [a, b], [r] | "sub", some [a, b], [r] | "mul", some [a, b], [r] | "div", some [a, b], [r] =>
    match pRawAlg? r with
    | none => .skip "parse"
    | some r =>
      match algOk r with
      | .ok _ =>
        let tag := s!"alg/{op}/{kindOf a}-{kindOf b}/{kindOf r}"
        if op = "add" then judgeOpEq tag .add a.toZ b.toZ r.toZ cap
        else if op = "sub" then judgeOpEq tag .add a.toZ (ZAlg.neg b.toZ) r.toZ cap
        else if op = "mul" then judgeOpEq tag .mul a.toZ b.toZ r.toZ cap
        else match ZAlg.inv b.toZ with
          | none => .skip "inverse out of fuel"
          | some bi => judgeOpEq tag .mul a.toZ bi r.toZ cap
      | v => v
  | "neg", some [a], [r] | "inv", some [a], [r] =>
    match pRawAlg? r with
    | none => .skip "parse"
    | some r =>
      match algOk r with
      | .ok _ =>
        let tag := s!"alg/{op}/{kindOf a}/{kindOf r}"
        let want := if op = "neg" then some (ZAlg.neg a.toZ) else ZAlg.inv a.toZ
        match want with
        | none => .skip "inverse out of fuel"
        | some w =>
          match Alg.valid w.a, Alg.cmp r.toAlg w.a with
          | some true, some c => if c = 0 then .ok tag else .viol tag "result is not the exact value"
          | some false, _ => .skip "model inverse not isolating"
          | _, _ => .skip "cmp out of fuel"
      | v => v
  | _, _, _ =>
  match op, args, res with
  | "pow", [a, n], [r] | "root", [a, n], [r] =>
    match pRawAlg? a, pNat? n, pRawAlg? r with
    | some a, some n, some r =>
      match algOk r with
      | .ok _ =>
        let tag := s!"alg/{op}/{kindOf a}/{n}/{kindOf r}"
        if op = "pow" then
          if n = 0 then (match Alg.cmpRat r.toAlg 1 with | some 0 => .ok tag | some _ => .viol tag "x^0 is not 1" | none => .skip "fuel")
          else judgeOpEq tag (.pow n) a.toZ (ZAlg.ofRat 0) r.toZ cap
        else
          match Alg.sgn r.toAlg with
          | none => .skip "fuel"
          | some s => if s < 0 then .viol tag "negative root returned" else
              match ZAlg.isRootN a.toZ r.toZ n 200 with
              | none => .skip "root check out of fuel"
              | some true => .ok tag
              | some false => .viol tag "result is not the non-negative n-th root"
      | v => v
    | _, _, _ => .skip "parse"
  | "cmp", [a, b], [c] =>
    match pRawAlg? a, pRawAlg? b, pInt? c with
    | some a, some b, some c =>
      match Alg.cmp a.toAlg b.toAlg with
      | none => .skip "cmp out of fuel"
      | some w => let tag := s!"alg/cmp/{kindOf a}-{kindOf b}/{cmpName w}"
                  if sgnI c = w then .ok tag else .viol tag s!"got {c}, exact {w}"
    | _, _, _ => .skip "parse"
  | "cmpz", [a, x], [c] | "cmpd", [a, x], [c] | "cmpq", [a, x], [c] =>
    match pRawAlg? a, pEnd? x, pInt? c with
    | some a, some q, some c =>
      match Alg.cmpRat a.toAlg q with
      | none => .skip "cmp out of fuel"
      | some w => let tag := s!"alg/{op}/{kindOf a}/{cmpName w}"
                  if sgnI c = w then .ok tag else .viol tag s!"got {c}, exact {w}"
    | _, _, _ => .skip "parse"
  | "sgn", [a], [c] =>
    match pRawAlg? a, pInt? c with
    | some a, some c =>
      match Alg.sgn a.toAlg with
      | none => .skip "fuel"
      | some w => let tag := s!"alg/sgn/{kindOf a}/{cmpName w}"
                  if sgnI c = w then .ok tag else .viol tag s!"got {c}, exact {w}"
    | _, _ => .skip "parse"
  | "floor", [a], [c] | "ceil", [a], [c] =>
    match pRawAlg? a, pInt? c with
    | some a, some c =>
      match (if op = "floor" then Alg.floor a.toAlg else Alg.ceil a.toAlg) with
      | none => .skip "fuel"
      | some w => let tag := s!"alg/{op}/{kindOf a}"
                  if c = w then .ok tag else .viol tag s!"got {c}, exact {w}"
    | _, _ => .skip "parse"
  | "isint", [a], [c] =>
    match pRawAlg? a, pInt? c with
    | some a, some c =>
      match Alg.isInteger a.toAlg with
      | none => .skip "fuel"
      | some w => let tag := s!"alg/isint/{kindOf a}/{w}"
                  if (c ≠ 0) = w then .ok tag else .viol tag s!"got {c}, exact {w}"
    | _, _ => .skip "parse"
  | "rat", [a], [ir, q] =>
    match pRawAlg? a, pInt? ir, pRat? q with
    | some a, some ir, some q =>
      if ir ≠ 0 then
        -- claimed rational: to_rational must be the exact value
        match Alg.cmpRat a.toAlg q with
        | none => .skip "fuel"
        | some 0 => .ok s!"alg/rat/{kindOf a}/rational"
        | some _ => .viol "alg/rat/rational" "is_rational answered true but to_rational is not the value"
      else
        -- approximation: within 2^-30 of the value
        let eps : Rat := 1 / (2 ^ 30 : Nat)
        match Alg.cmpRat a.toAlg (q - eps), Alg.cmpRat a.toAlg (q + eps) with
        | some c1, some c2 => if c1 ≥ 0 ∧ c2 ≤ 0 then .ok s!"alg/rat/{kindOf a}/approx" else .viol "alg/rat/approx" "to_rational is farther than 2^-30 from the value"
        | _, _ => .skip "fuel"
    | _, _, _ => .skip "parse"
  | "dbl", [a], [q] =>
    match pRawAlg? a, pRat? q with
    | some a, some q =>
      let eps : Rat := (1 + QPoly.absQ q) / (2 ^ 30 : Nat)
      match Alg.cmpRat a.toAlg (q - eps), Alg.cmpRat a.toAlg (q + eps) with
      | some c1, some c2 => if c1 ≥ 0 ∧ c2 ≤ 0 then .ok s!"alg/dbl/{kindOf a}" else .viol "alg/dbl" "to_double is farther than 2^-30 (relative) from the value"
      | _, _ => .skip "fuel"
    | _, _ => .skip "parse"
  | _, _, _ => .skip s!"unknown alg op {op}"

def checkAlg (op : String) (args res : List String) : Verdict :=
  match operandsOk args with
  | some msg => .viol "state/operand-repr" msg
  | none => checkAlgCore op args res

end LP.Driver
