/-
  Soundness of the real-root counter `LP.Model.RootCount` (T6): interval Horner evaluation encloses the
  range; a sign-definite derivative makes the polynomial strictly monotone; hence `isoLoop` returns cells
  that cover all real roots of the open interval, each cell holding exactly one root, in increasing order.
-/
import LP.Model.Alg
import LP.Props.C03
import LP.Lemmas.Interval
import Mathlib.Analysis.Calculus.Deriv.Polynomial
import Mathlib.Analysis.Calculus.Deriv.MeanValue
import Mathlib.Topology.Algebra.Polynomial
import Mathlib.Algebra.Polynomial.AlgebraMap
import Mathlib.Analysis.Polynomial.CauchyBound

namespace LP
namespace QPoly
open Polynomial

/-- the real polynomial denoted by a coefficient list -/
noncomputable def toPolyR (p : QPoly) : ℝ[X] := (toPoly p).map (algebraMap ℚ ℝ)

/-- real evaluation -/
noncomputable def evalR (p : QPoly) (x : ℝ) : ℝ := (toPolyR p).eval x

theorem evalR_nil (x : ℝ) : evalR [] x = 0 := by simp [evalR, toPolyR, toPoly_nil]
theorem evalR_cons (c : ℚ) (p : QPoly) (x : ℝ) : evalR (c :: p) x = (c : ℝ) + x * evalR p x := by
  simp [evalR, toPolyR, toPoly_cons]

theorem eval_cast (p : QPoly) (q : ℚ) : ((QPoly.eval p q : ℚ) : ℝ) = evalR p (q : ℝ) := by
  induction p with
  | nil => simp [QPoly.eval, evalR_nil]
  | cons c p ih =>
    have : QPoly.eval (c :: p) q = c + q * QPoly.eval p q := rfl
    rw [this, evalR_cons, ← ih]; push_cast; ring

/-- derivative of the model = derivative of the denoted polynomial -/
theorem toPoly_derivAux (k : ℕ) (p : QPoly) :
    toPoly (derivAux k p) = (k : ℚ[X]) * toPoly p + X * Polynomial.derivative (toPoly p) := by
  induction p generalizing k with
  | nil => simp [derivAux, toPoly_nil]
  | cons c p ih =>
    rw [derivAux, toPoly_cons, toPoly_cons, ih]
    simp only [derivative_add, derivative_C, derivative_mul, derivative_X, map_mul, map_natCast]
    push_cast
    ring

theorem toPoly_derivative (p : QPoly) : toPoly (QPoly.derivative p) = Polynomial.derivative (toPoly p) := by
  cases p with
  | nil => simp [QPoly.derivative, derivAux, toPoly_nil]
  | cons c p =>
    rw [QPoly.derivative, List.tail_cons, toPoly_derivAux, toPoly_cons]
    simp only [derivative_add, derivative_C, derivative_mul, derivative_X]
    push_cast
    ring

theorem toPolyR_derivative (p : QPoly) : toPolyR (QPoly.derivative p) = Polynomial.derivative (toPolyR p) := by
  rw [toPolyR, toPoly_derivative, toPolyR, derivative_map]

/-! ### interval evaluation encloses the range -/

def CI.memR (X : CI) (x : ℝ) : Prop := (X.lo : ℝ) ≤ x ∧ x ≤ (X.hi : ℝ)

theorem CI.mem_add {X Y : CI} {x y : ℝ} (hx : X.memR x) (hy : Y.memR y) : (CI.add X Y).memR (x + y) := by
  unfold CI.memR CI.add at *
  constructor <;> push_cast <;> linarith [hx.1, hx.2, hy.1, hy.2]

theorem CI.mem_pt (c : ℚ) : (CI.pt c).memR (c : ℝ) := ⟨le_refl _, le_refl _⟩

theorem CI.mem_mul {X Y : CI} {x y : ℝ} (hx : X.memR x) (hy : Y.memR y) : (CI.mul X Y).memR (x * y) := by
  unfold CI.memR at *
  have hl := IntervalLemmas.corner_lower (X.lo : ℝ) X.hi Y.lo Y.hi x y hx.1 hx.2 hy.1 hy.2
  have hu := IntervalLemmas.corner_upper (X.lo : ℝ) X.hi Y.lo Y.hi x y hx.1 hx.2 hy.1 hy.2
  unfold CI.mul
  constructor
  · push_cast
    rcases hl with h | h | h | h
    · exact le_trans (le_trans (min_le_left _ _) (min_le_left _ _)) h
    · exact le_trans (le_trans (min_le_left _ _) (min_le_right _ _)) h
    · exact le_trans (le_trans (min_le_right _ _) (min_le_left _ _)) h
    · exact le_trans (le_trans (min_le_right _ _) (min_le_right _ _)) h
  · push_cast
    rcases hu with h | h | h | h
    · exact le_trans h (le_trans (le_max_left _ _) (le_max_left _ _))
    · exact le_trans h (le_trans (le_max_right _ _) (le_max_left _ _))
    · exact le_trans h (le_trans (le_max_left _ _) (le_max_right _ _))
    · exact le_trans h (le_trans (le_max_right _ _) (le_max_right _ _))

theorem ieval_encloses (p : QPoly) (X : CI) (x : ℝ) (hx : X.memR x) : (ieval p X).memR (evalR p x) := by
  induction p with
  | nil =>
    rw [evalR_nil]; exact ⟨by simp [ieval, CI.pt], by simp [ieval, CI.pt]⟩
  | cons c p ih =>
    have : ieval (c :: p) X = CI.add (CI.pt c) (CI.mul X (ieval p X)) := rfl
    rw [this, evalR_cons]
    exact CI.mem_add (CI.mem_pt c) (CI.mem_mul hx ih)

theorem excl0_ne (p : QPoly) (X : CI) (h : (ieval p X).excl0 = true) (x : ℝ) (hx : X.memR x) : evalR p x ≠ 0 := by
  have he := ieval_encloses p X x hx
  unfold CI.excl0 at h
  simp only [Bool.or_eq_true, decide_eq_true_eq] at h
  unfold CI.memR at he
  rcases h with h | h
  · have : (0 : ℝ) < ((ieval p X).lo : ℝ) := by exact_mod_cast h
    intro h0; rw [h0] at he; linarith [he.1]
  · have : ((ieval p X).hi : ℝ) < 0 := by exact_mod_cast h
    intro h0; rw [h0] at he; linarith [he.2]

theorem excl0_sign (p : QPoly) (X : CI) (h : (ieval p X).excl0 = true) :
    (∀ x, X.memR x → 0 < evalR p x) ∨ (∀ x, X.memR x → evalR p x < 0) := by
  unfold CI.excl0 at h
  simp only [Bool.or_eq_true, decide_eq_true_eq] at h
  rcases h with h | h
  · left; intro x hx
    have he := ieval_encloses p X x hx
    have : (0 : ℝ) < ((ieval p X).lo : ℝ) := by exact_mod_cast h
    exact lt_of_lt_of_le this he.1
  · right; intro x hx
    have he := ieval_encloses p X x hx
    have : ((ieval p X).hi : ℝ) < 0 := by exact_mod_cast h
    exact lt_of_le_of_lt he.2 this


/-! ### centred form -/

theorem evalR_taylor (p : QPoly) (m : ℚ) (h : ℝ) : evalR (taylor p m) h = evalR p ((m : ℝ) + h) := by
  induction p with
  | nil => simp [taylor, evalR_nil]
  | cons c p ih =>
    rw [taylor]
    unfold evalR toPolyR at ih ⊢
    rw [toPoly_add, toPoly_mul, Polynomial.map_add, Polynomial.map_mul, eval_add, eval_mul, ih]
    simp [toPoly_cons, toPoly_nil]

theorem ievalC_encloses (p : QPoly) (X : CI) (x : ℝ) (hx : X.memR x) : (ievalC p X).memR (evalR p x) := by
  unfold ievalC
  simp only
  have hmem : (CI.mk (X.lo - (X.lo + X.hi) / 2) (X.hi - (X.lo + X.hi) / 2)).memR (x - (((X.lo + X.hi) / 2 : ℚ) : ℝ)) := by
    unfold CI.memR at *
    constructor <;> push_cast <;> linarith [hx.1, hx.2]
  have := ieval_encloses (taylor p ((X.lo + X.hi) / 2)) _ _ hmem
  rw [evalR_taylor] at this
  simpa using this

theorem excl0C_ne (p : QPoly) (X : CI) (h : (ievalC p X).excl0 = true) (x : ℝ) (hx : X.memR x) : evalR p x ≠ 0 := by
  have he := ievalC_encloses p X x hx
  unfold CI.excl0 at h
  simp only [Bool.or_eq_true, decide_eq_true_eq] at h
  unfold CI.memR at he
  rcases h with h | h
  · have : (0 : ℝ) < ((ievalC p X).lo : ℝ) := by exact_mod_cast h
    intro h0; rw [h0] at he; linarith [he.1]
  · have : ((ievalC p X).hi : ℝ) < 0 := by exact_mod_cast h
    intro h0; rw [h0] at he; linarith [he.2]

theorem excl0C_sign (p : QPoly) (X : CI) (h : (ievalC p X).excl0 = true) :
    (∀ x, X.memR x → 0 < evalR p x) ∨ (∀ x, X.memR x → evalR p x < 0) := by
  unfold CI.excl0 at h
  simp only [Bool.or_eq_true, decide_eq_true_eq] at h
  rcases h with h | h
  · left; intro x hx
    have he := ievalC_encloses p X x hx
    have : (0 : ℝ) < ((ievalC p X).lo : ℝ) := by exact_mod_cast h
    exact lt_of_lt_of_le this he.1
  · right; intro x hx
    have he := ievalC_encloses p X x hx
    have : ((ievalC p X).hi : ℝ) < 0 := by exact_mod_cast h
    exact lt_of_le_of_lt he.2 this

/-! ### monotonicity from a sign-definite derivative -/

theorem deriv_evalR (p : QPoly) (x : ℝ) : deriv (evalR p) x = evalR (QPoly.derivative p) x := by
  unfold evalR
  rw [toPolyR_derivative]
  exact Polynomial.deriv (toPolyR p)

theorem continuous_evalR (p : QPoly) : Continuous (evalR p) := (toPolyR p).continuous

theorem mono_of_excl0 (p : QPoly) (a b : ℚ) (h : (ievalC (QPoly.derivative p) ⟨a, b⟩).excl0 = true) :
    StrictMonoOn (evalR p) (Set.Icc (a : ℝ) b) ∨ StrictAntiOn (evalR p) (Set.Icc (a : ℝ) b) := by
  have hmem : ∀ x ∈ interior (Set.Icc (a : ℝ) b), (CI.mk a b).memR x := by
    intro x hx
    rw [interior_Icc] at hx
    exact ⟨le_of_lt hx.1, le_of_lt hx.2⟩
  rcases excl0C_sign _ _ h with hs | hs
  · left
    apply strictMonoOn_of_deriv_pos (convex_Icc _ _) (continuous_evalR p).continuousOn
    intro x hx
    rw [deriv_evalR]; exact hs x (hmem x hx)
  · right
    apply strictAntiOn_of_deriv_neg (convex_Icc _ _) (continuous_evalR p).continuousOn
    intro x hx
    rw [deriv_evalR]; exact hs x (hmem x hx)

/-! ### the meaning of a list of cells -/

def Cell.memR : Cell → ℝ → Prop
  | .pt q, x => x = (q : ℝ)
  | .iv l u, x => (l : ℝ) < x ∧ x < (u : ℝ)

/-- `L` describes exactly the real roots of `p` in the open interval (a, b) -/
structure Isolates (p : QPoly) (a b : ℚ) (L : List Cell) : Prop where
  complete : ∀ x : ℝ, (a : ℝ) < x → x < (b : ℝ) → evalR p x = 0 → ∃ c ∈ L, c.memR x
  within : ∀ c ∈ L, ∀ x, c.memR x → (a : ℝ) < x ∧ x < (b : ℝ)
  unique : ∀ c ∈ L, ∃! x, c.memR x ∧ evalR p x = 0
  sorted : L.Pairwise (fun c d => ∀ x y, c.memR x → d.memR y → x < y)

theorem isolates_nil (p : QPoly) (a b : ℚ) (h : ∀ x : ℝ, (a : ℝ) < x → x < (b : ℝ) → evalR p x ≠ 0) :
    Isolates p a b [] :=
  ⟨fun x h1 h2 h3 => absurd h3 (h x h1 h2), by simp, by simp, List.Pairwise.nil⟩

/-- strictly monotone (either direction) with a sign change: exactly one root, in the open interval -/
theorem unique_root_of_mono (f : ℝ → ℝ) (a b : ℝ) (hab : a < b) (hc : ContinuousOn f (Set.Icc a b))
    (hm : StrictMonoOn f (Set.Icc a b) ∨ StrictAntiOn f (Set.Icc a b)) (hs : f a * f b < 0) :
    ∃! x, (a < x ∧ x < b) ∧ f x = 0 := by
  have hinj : Set.InjOn f (Set.Icc a b) := by
    rcases hm with h | h
    · exact h.injOn
    · exact h.injOn
  have hex : ∃ x ∈ Set.Icc a b, f x = 0 := by
    rcases lt_or_gt_of_ne (show f a ≠ 0 by intro h; rw [h] at hs; simp at hs) with ha | ha
    · have hb : 0 < f b := by
        by_contra hb; push Not at hb
        have := mul_nonneg_of_nonpos_of_nonpos ha.le hb; linarith
      have := intermediate_value_Icc hab.le hc
      exact this ⟨ha.le, hb.le⟩
    · have hb : f b < 0 := by
        by_contra hb; push Not at hb
        have := mul_nonneg ha.le hb; linarith
      have := intermediate_value_Icc' hab.le hc
      exact this ⟨hb.le, ha.le⟩
  obtain ⟨x, hx, hfx⟩ := hex
  have hxa : x ≠ a := by rintro rfl; rw [hfx] at hs; simp at hs
  have hxb : x ≠ b := by rintro rfl; rw [hfx] at hs; simp at hs
  refine ⟨x, ⟨⟨lt_of_le_of_ne hx.1 (Ne.symm hxa), lt_of_le_of_ne hx.2 hxb⟩, hfx⟩, ?_⟩
  rintro y ⟨⟨hy1, hy2⟩, hfy⟩
  exact hinj ⟨hy1.le, hy2.le⟩ hx (hfy.trans hfx.symm)

/-- strictly monotone without a sign change: no root in the open interval -/
theorem no_root_of_mono (f : ℝ → ℝ) (a b : ℝ)
    (hm : StrictMonoOn f (Set.Icc a b) ∨ StrictAntiOn f (Set.Icc a b)) (hs : ¬ f a * f b < 0)
    (x : ℝ) (h1 : a < x) (h2 : x < b) : f x ≠ 0 := by
  intro hfx
  apply hs
  have ha : a ∈ Set.Icc a b := ⟨le_refl _, (h1.trans h2).le⟩
  have hb : b ∈ Set.Icc a b := ⟨(h1.trans h2).le, le_refl _⟩
  have hx : x ∈ Set.Icc a b := ⟨h1.le, h2.le⟩
  rcases hm with h | h
  · have l1 := h ha hx h1; have l2 := h hx hb h2
    rw [hfx] at l1 l2; exact mul_neg_of_neg_of_pos l1 l2
  · have l1 := h ha hx h1; have l2 := h hx hb h2
    rw [hfx] at l1 l2; exact mul_neg_of_pos_of_neg l1 l2

theorem isoLoop_sound (p : QPoly) : ∀ (fuel : ℕ) (a b : ℚ) (L : List Cell), a < b →
    isoLoop p (QPoly.derivative p) fuel a b = some L → Isolates p a b L := by
  intro fuel
  induction fuel with
  | zero => intro a b L _ h; simp [isoLoop] at h
  | succ fuel ih =>
    intro a b L hab h
    have habR : (a : ℝ) < b := by exact_mod_cast hab
    rw [isoLoop] at h
    by_cases h1 : (ievalC p ⟨a, b⟩).excl0 = true
    · -- p has no root on [a, b]
      rw [if_pos h1] at h
      cases h
      exact isolates_nil p a b (fun x hx1 hx2 => excl0C_ne p ⟨a, b⟩ h1 x ⟨hx1.le, hx2.le⟩)
    rw [if_neg h1] at h
    by_cases h2 : (ievalC (QPoly.derivative p) ⟨a, b⟩).excl0 = true
    · rw [if_pos h2] at h
      have hm := mono_of_excl0 p a b h2
      by_cases h3 : QPoly.eval p a * QPoly.eval p b < 0
      · -- monotone with a sign change
        rw [if_pos h3] at h
        cases h
        have hs : evalR p a * evalR p b < 0 := by
          rw [← eval_cast, ← eval_cast]; exact_mod_cast h3
        obtain ⟨x, hx, hux⟩ := unique_root_of_mono (evalR p) a b habR (continuous_evalR p).continuousOn hm hs
        refine ⟨?_, ?_, ?_, List.pairwise_singleton _ _⟩
        · intro y hy1 hy2 hy
          exact ⟨_, List.mem_singleton_self _, ⟨hy1, hy2⟩⟩
        · intro c hc y hy
          rw [List.mem_singleton] at hc; subst hc; exact hy
        · intro c hc
          rw [List.mem_singleton] at hc; subst hc
          exact ⟨x, hx, hux⟩
      · -- monotone without a sign change
        rw [if_neg h3] at h
        cases h
        have hs : ¬ evalR p a * evalR p b < 0 := by
          rw [← eval_cast, ← eval_cast]; exact_mod_cast h3
        exact isolates_nil p a b (fun x hx1 hx2 => no_root_of_mono (evalR p) a b hm hs x hx1 hx2)
    rw [if_neg h2] at h
    · -- bisection
      set m : ℚ := (a + b) / 2 with hm
      have ham : a < m := by rw [hm]; linarith
      have hmb : m < b := by rw [hm]; linarith
      have hamR : (a : ℝ) < m := by exact_mod_cast ham
      have hmbR : (m : ℝ) < b := by exact_mod_cast hmb
      cases hL : isoLoop p (QPoly.derivative p) fuel a m with
      | none => rw [hL] at h; simp at h
      | some Lf =>
        cases hR : isoLoop p (QPoly.derivative p) fuel m b with
        | none => rw [hL, hR] at h; simp at h
        | some Rt =>
          rw [hL, hR] at h
          simp only [Option.some.injEq] at h
          have iL := ih a m Lf ham hL
          have iR := ih m b Rt hmb hR
          subst h
          by_cases h0 : QPoly.eval p m = 0
          · -- the midpoint is a root
            have h0R : evalR p m = 0 := by rw [← eval_cast, h0]; simp
            rw [if_pos h0]
            refine ⟨?_, ?_, ?_, ?_⟩
            · intro x hx1 hx2 hx
              rcases lt_trichotomy x (m : ℝ) with hlt | heq | hgt
              · obtain ⟨c, hc, hcx⟩ := iL.complete x hx1 hlt hx
                exact ⟨c, by simp [hc], hcx⟩
              · exact ⟨Cell.pt m, by simp, heq⟩
              · obtain ⟨c, hc, hcx⟩ := iR.complete x hgt hx2 hx
                exact ⟨c, by simp [hc], hcx⟩
            · intro c hc x hcx
              simp only [List.mem_append, List.mem_singleton] at hc
              rcases hc with (hc | hc) | hc
              · have := iL.within c hc x hcx; exact ⟨this.1, this.2.trans hmbR⟩
              · subst hc; have : x = (m : ℝ) := hcx; rw [this]; exact ⟨hamR, hmbR⟩
              · have := iR.within c hc x hcx; exact ⟨hamR.trans this.1, this.2⟩
            · intro c hc
              simp only [List.mem_append, List.mem_singleton] at hc
              rcases hc with (hc | hc) | hc
              · exact iL.unique c hc
              · subst hc
                exact ⟨(m : ℝ), ⟨rfl, h0R⟩, fun y hy => hy.1⟩
              · exact iR.unique c hc
            · rw [List.pairwise_append]
              refine ⟨?_, iR.sorted, ?_⟩
              · rw [List.pairwise_append]
                refine ⟨iL.sorted, List.pairwise_singleton _ _, ?_⟩
                intro c hc d hd x y hx hy
                rw [List.mem_singleton] at hd; subst hd
                have : y = (m : ℝ) := hy
                rw [this]; exact (iL.within c hc x hx).2
              · intro c hc d hd x y hx hy
                have hy' := (iR.within d hd y hy).1
                simp only [List.mem_append, List.mem_singleton] at hc
                rcases hc with hc | hc
                · exact ((iL.within c hc x hx).2).trans hy'
                · subst hc; have : x = (m : ℝ) := hx; rw [this]; exact hy'
          · have h0R : evalR p m ≠ 0 := by
              rw [← eval_cast]; exact_mod_cast h0
            rw [if_neg h0, List.append_nil]
            refine ⟨?_, ?_, ?_, ?_⟩
            · intro x hx1 hx2 hx
              rcases lt_trichotomy x (m : ℝ) with hlt | heq | hgt
              · obtain ⟨c, hc, hcx⟩ := iL.complete x hx1 hlt hx
                exact ⟨c, by simp [hc], hcx⟩
              · rw [heq] at hx; exact absurd hx h0R
              · obtain ⟨c, hc, hcx⟩ := iR.complete x hgt hx2 hx
                exact ⟨c, by simp [hc], hcx⟩
            · intro c hc x hcx
              rw [List.mem_append] at hc
              rcases hc with hc | hc
              · have := iL.within c hc x hcx; exact ⟨this.1, this.2.trans hmbR⟩
              · have := iR.within c hc x hcx; exact ⟨hamR.trans this.1, this.2⟩
            · intro c hc
              rw [List.mem_append] at hc
              rcases hc with hc | hc
              · exact iL.unique c hc
              · exact iR.unique c hc
            · rw [List.pairwise_append]
              refine ⟨iL.sorted, iR.sorted, ?_⟩
              intro c hc d hd x y hx hy
              exact ((iL.within c hc x hx).2).trans (iR.within d hd y hy).1


/-! ### from cells to the sorted list of roots -/

/-- a strictly increasing list enumerating exactly the set `S` -/
def Enumerates (rs : List ℝ) (S : ℝ → Prop) : Prop := rs.Pairwise (· < ·) ∧ ∀ x, x ∈ rs ↔ S x

theorem cells_roots (p : QPoly) : ∀ (L : List Cell),
    (∀ c ∈ L, ∃! x, c.memR x ∧ evalR p x = 0) →
    L.Pairwise (fun c d => ∀ x y, c.memR x → d.memR y → x < y) →
    ∃ rs : List ℝ, rs.length = L.length ∧ Enumerates rs (fun x => ∃ c ∈ L, c.memR x ∧ evalR p x = 0) := by
  intro L
  induction L with
  | nil => intro _ _; exact ⟨[], rfl, List.Pairwise.nil, by simp⟩
  | cons c L ih =>
    intro hu hs
    rw [List.pairwise_cons] at hs
    obtain ⟨rs, hlen, hpw, hmem⟩ := ih (fun d hd => hu d (List.mem_cons_of_mem _ hd)) hs.2
    obtain ⟨x, ⟨hxc, hx0⟩, hxu⟩ := hu c List.mem_cons_self
    refine ⟨x :: rs, by simp [hlen], ?_, ?_⟩
    · rw [List.pairwise_cons]
      refine ⟨?_, hpw⟩
      intro y hy
      obtain ⟨d, hd, hdy, _⟩ := (hmem y).1 hy
      exact hs.1 d hd x y hxc hdy
    · intro y
      rw [List.mem_cons]
      constructor
      · rintro (rfl | hy)
        · exact ⟨c, List.mem_cons_self, hxc, hx0⟩
        · obtain ⟨d, hd, h1, h2⟩ := (hmem y).1 hy
          exact ⟨d, List.mem_cons_of_mem _ hd, h1, h2⟩
      · rintro ⟨d, hd, h1, h2⟩
        rw [List.mem_cons] at hd
        rcases hd with rfl | hd
        · left; exact hxu y ⟨h1, h2⟩
        · right; exact (hmem y).2 ⟨d, hd, h1, h2⟩

/-- the cells returned by `isoLoop` enumerate exactly the roots in the open interval -/
theorem isolates_enumerates (p : QPoly) (a b : ℚ) (L : List Cell) (h : Isolates p a b L) :
    ∃ rs : List ℝ, rs.length = L.length ∧
      Enumerates rs (fun x => (a : ℝ) < x ∧ x < (b : ℝ) ∧ evalR p x = 0) := by
  obtain ⟨rs, hlen, hpw, hmem⟩ := cells_roots p L h.unique h.sorted
  refine ⟨rs, hlen, hpw, fun x => ?_⟩
  rw [hmem x]
  constructor
  · rintro ⟨c, hc, h1, h2⟩
    have := h.within c hc x h1
    exact ⟨this.1, this.2, h2⟩
  · rintro ⟨h1, h2, h3⟩
    obtain ⟨c, hc, hcx⟩ := h.complete x h1 h2 h3
    exact ⟨c, hc, hcx, h3⟩

/-- membership of a real in the interval with the given end-point strictness -/
def InI (a : ℚ) (ao : Bool) (b : ℚ) (bo : Bool) (x : ℝ) : Prop :=
  (if ao then (a : ℝ) < x else (a : ℝ) ≤ x) ∧ (if bo then x < (b : ℝ) else x ≤ (b : ℝ))

theorem isolateOpen_sound (p : QPoly) (a b : ℚ) (L : List Cell) (hab : a < b) (h : isolateOpen p a b = some L) :
    Isolates p a b L := by
  unfold isolateOpen at h
  split_ifs at h
  exact isoLoop_sound p _ a b L hab h

/-- **root counting is exact**: a successful `countIn` is the length of a strictly increasing list that
    enumerates exactly the real roots in the interval, honouring the strictness of each end -/
theorem countIn_sound (p : QPoly) (a : ℚ) (ao : Bool) (b : ℚ) (bo : Bool) (k : ℕ)
    (h : countIn p a ao b bo = some k) :
    ∃ rs : List ℝ, rs.length = k ∧ Enumerates rs (fun x => InI a ao b bo x ∧ evalR p x = 0) := by
  unfold countIn at h
  by_cases hab : a = b
  · subst hab
    rw [if_pos rfl] at h
    by_cases hopen : (ao = true ∨ bo = true)
    · rw [if_pos hopen] at h; cases h
      refine ⟨[], rfl, List.Pairwise.nil, fun x => ?_⟩
      simp only [List.not_mem_nil, false_iff, InI, not_and]
      intro hI
      exfalso
      rcases hopen with ho | ho
      · subst ho
        simp only [if_true] at hI
        cases bo <;> simp at hI <;> linarith [hI.1, hI.2]
      · subst ho
        simp only [if_true] at hI
        cases ao <;> simp at hI <;> linarith [hI.1, hI.2]
    · rw [if_neg hopen] at h
      push Not at hopen
      have hao : ao = false := by simpa using hopen.1
      have hbo : bo = false := by simpa using hopen.2
      subst hao hbo
      by_cases h0 : QPoly.eval p a = 0
      · rw [if_pos h0] at h; cases h
        have h0R : evalR p a = 0 := by rw [← eval_cast, h0]; simp
        refine ⟨[(a : ℝ)], rfl, List.pairwise_singleton _ _, fun x => ?_⟩
        simp only [List.mem_singleton, InI, Bool.false_eq_true, if_false]
        constructor
        · rintro rfl; exact ⟨⟨le_refl _, le_refl _⟩, h0R⟩
        · rintro ⟨⟨h1, h2⟩, _⟩; exact le_antisymm h2 h1
      · rw [if_neg h0] at h; cases h
        have h0R : evalR p a ≠ 0 := by rw [← eval_cast]; exact_mod_cast h0
        refine ⟨[], rfl, List.Pairwise.nil, fun x => ?_⟩
        simp only [List.not_mem_nil, false_iff, InI, Bool.false_eq_true, if_false, not_and]
        rintro ⟨h1, h2⟩
        have : x = (a : ℝ) := le_antisymm h2 h1
        rw [this]; exact h0R
  · rw [if_neg hab] at h
    by_cases hba : b < a
    · rw [if_pos hba] at h; cases h
      have hbaR : (b : ℝ) < a := by exact_mod_cast hba
      refine ⟨[], rfl, List.Pairwise.nil, fun x => ?_⟩
      simp only [List.not_mem_nil, false_iff, InI, not_and]
      intro hI
      exfalso
      cases ao <;> cases bo <;> simp at hI <;> linarith [hI.1, hI.2]
    · rw [if_neg hba] at h
      have hlt : a < b := lt_of_le_of_ne (not_lt.1 hba) hab
      have hltR : (a : ℝ) < b := by exact_mod_cast hlt
      cases hL : isolateOpen p a b with
      | none => rw [hL] at h; simp at h
      | some L =>
        rw [hL] at h
        simp only [Option.map_some, Option.some.injEq] at h
        obtain ⟨rs, hlen, hpw, hmem⟩ := isolates_enumerates p a b L (isolateOpen_sound p a b L hlt hL)
        -- the two end points
        have eA : (QPoly.eval p a = 0) ↔ evalR p a = 0 := by
          rw [← eval_cast]; constructor
          · intro h0; rw [h0]; simp
          · intro h0; exact_mod_cast h0
        have eB : (QPoly.eval p b = 0) ↔ evalR p b = 0 := by
          rw [← eval_cast]; constructor
          · intro h0; rw [h0]; simp
          · intro h0; exact_mod_cast h0
        refine ⟨(if (!ao) = true ∧ QPoly.eval p a = 0 then [(a : ℝ)] else []) ++ rs ++
                (if (!bo) = true ∧ QPoly.eval p b = 0 then [(b : ℝ)] else []), ?_, ?_, ?_⟩
        · rw [← h]
          simp only [List.length_append, hlen]
          split_ifs <;> simp <;> omega
        · rw [List.pairwise_append]
          refine ⟨?_, ?_, ?_⟩
          · rw [List.pairwise_append]
            refine ⟨by split_ifs <;> simp, hpw, ?_⟩
            intro x hx y hy
            split_ifs at hx
            · rw [List.mem_singleton] at hx; subst hx
              exact ((hmem y).1 hy).1
            · simp at hx
          · split_ifs <;> simp
          · intro x hx y hy
            split_ifs at hy
            · rw [List.mem_singleton] at hy; subst hy
              rw [List.mem_append] at hx
              rcases hx with hx | hx
              · split_ifs at hx
                · rw [List.mem_singleton] at hx; subst hx; exact hltR
                · simp at hx
              · exact ((hmem x).1 hx).2.1
            · simp at hy
        · intro x
          simp only [List.mem_append]
          constructor
          · rintro ((hx | hx) | hx)
            · split_ifs at hx with hc
              · rw [List.mem_singleton] at hx; subst hx
                have : ao = false := by simpa using hc.1
                subst this
                refine ⟨⟨by simp, ?_⟩, eA.1 hc.2⟩
                cases bo <;> simp <;> linarith
              · simp at hx
            · obtain ⟨h1, h2, h3⟩ := (hmem x).1 hx
              refine ⟨⟨?_, ?_⟩, h3⟩
              · cases ao <;> simp <;> linarith
              · cases bo <;> simp <;> linarith
            · split_ifs at hx with hc
              · rw [List.mem_singleton] at hx; subst hx
                have : bo = false := by simpa using hc.1
                subst this
                refine ⟨⟨?_, by simp⟩, eB.1 hc.2⟩
                cases ao <;> simp <;> linarith
              · simp at hx
          · rintro ⟨⟨h1, h2⟩, h3⟩
            rcases lt_trichotomy x (a : ℝ) with hxa | hxa | hxa
            · exfalso; cases ao <;> simp at h1 <;> linarith
            · subst hxa
              left; left
              have : ao = false := by
                cases ao
                · rfl
                · simp at h1
              subst this
              rw [if_pos ⟨by simp, eA.2 h3⟩]; simp
            · rcases lt_trichotomy x (b : ℝ) with hxb | hxb | hxb
              · left; right; exact (hmem x).2 ⟨hxa, hxb, h3⟩
              · subst hxb
                right
                have : bo = false := by
                  cases bo
                  · rfl
                  · simp at h2
                subst this
                rw [if_pos ⟨by simp, eB.2 h3⟩]; simp
              · exfalso; cases bo <;> simp at h2 <;> linarith


/-! ### square-free part: same real roots -/

theorem evalR_trim (p : QPoly) (x : ℝ) : evalR (trim p) x = evalR p x := by
  unfold evalR toPolyR; rw [toPoly_trim]

theorem toPoly_eq_of_eqQ (a b : QPoly) (h : eqQ a b = true) : toPoly a = toPoly b := by
  unfold eqQ at h
  have : trim a = trim b := by simpa using h
  rw [← toPoly_trim a, this, toPoly_trim]

theorem toPoly_powQ (s : QPoly) (n : ℕ) : toPoly (powQ s n) = toPoly s ^ n := by
  induction n with
  | zero => simp [powQ, toPoly_cons, toPoly_nil]
  | succ n ih => rw [powQ, toPoly_mul, ih, pow_succ]; ring

theorem evalR_mul (a b : QPoly) (x : ℝ) : evalR (mul a b) x = evalR a x * evalR b x := by
  unfold evalR toPolyR; rw [toPoly_mul, Polynomial.map_mul, eval_mul]

theorem sameRootsCert_sound (p s g h : QPoly) (n : ℕ) (hc : sameRootsCert p s g h n = true) (x : ℝ) :
    evalR p x = 0 ↔ evalR s x = 0 := by
  unfold sameRootsCert at hc
  rw [Bool.and_eq_true] at hc
  have e1 := toPoly_eq_of_eqQ _ _ hc.1
  have e2 := toPoly_eq_of_eqQ _ _ hc.2
  have r1 : evalR p x = evalR s x * evalR g x := by
    rw [← evalR_mul]; unfold evalR toPolyR; rw [e1]
  have r2 : evalR g x * evalR h x = evalR s x ^ n := by
    rw [← evalR_mul]; unfold evalR toPolyR; rw [e2, toPoly_powQ, Polynomial.map_pow, eval_pow]
  constructor
  · intro hp
    rw [r1] at hp
    rcases mul_eq_zero.1 hp with h0 | h0
    · exact h0
    · rw [h0, zero_mul] at r2
      exact pow_eq_zero_iff (M₀ := ℝ) (n := n) (by rintro rfl; simp at r2) |>.1 r2.symm
  · intro hs; rw [r1, hs, zero_mul]

theorem sqfreePart_sound (p s : QPoly) (h : sqfreePart p = some s) (x : ℝ) : evalR p x = 0 ↔ evalR s x = 0 := by
  unfold sqfreePart at h
  simp only at h
  split_ifs at h with h1 h2
  · cases h; rw [evalR_trim]
  · cases h
    rw [← evalR_trim p]
    exact sameRootsCert_sound _ _ _ _ _ h2 x


/-! ### Cauchy bound -/

theorem coeff_toPoly (p : QPoly) (i : ℕ) : (toPoly p).coeff i = p.getD i 0 := by
  induction p generalizing i with
  | nil => simp [toPoly_nil]
  | cons c p ih =>
    rw [toPoly_cons]
    cases i with
    | zero => simp
    | succ i => simp [coeff_X_mul, ih, coeff_C]

theorem coeff_toPolyR (p : QPoly) (i : ℕ) : (toPolyR p).coeff i = ((p.getD i 0 : ℚ) : ℝ) := by
  unfold toPolyR; rw [coeff_map, coeff_toPoly]; rfl

theorem dropWhile_head_ne_zero : ∀ (l : List ℚ) (x : ℚ), (l.dropWhile (· = 0)).head? = some x → x ≠ 0 := by
  intro l
  induction l with
  | nil => intro x hx; simp at hx
  | cons a l ih =>
    intro x hx
    by_cases ha : a = 0
    · rw [List.dropWhile_cons_of_pos (by simpa using ha)] at hx; exact ih x hx
    · rw [List.dropWhile_cons_of_neg (by simpa using ha)] at hx
      simp only [List.head?_cons, Option.some.injEq] at hx
      rw [← hx]; exact ha

theorem trim_getLast_ne_zero (p : QPoly) (c : ℚ) (h : (trim p).getLast? = some c) : c ≠ 0 := by
  unfold trim at h
  rw [List.getLast?_reverse] at h
  exact dropWhile_head_ne_zero _ c h

theorem foldl_max_ge (f : ℚ → ℚ) : ∀ (l : List ℚ) (m0 : ℚ),
    m0 ≤ l.foldl (fun m c => max m (f c)) m0 ∧ ∀ c ∈ l, f c ≤ l.foldl (fun m c => max m (f c)) m0 := by
  intro l
  induction l with
  | nil => intro m0; simp
  | cons a l ih =>
    intro m0
    rw [List.foldl_cons]
    obtain ⟨h1, h2⟩ := ih (max m0 (f a))
    refine ⟨le_trans (le_max_left _ _) h1, ?_⟩
    intro c hc
    rw [List.mem_cons] at hc
    rcases hc with rfl | hc
    · exact le_trans (le_max_right _ _) h1
    · exact h2 c hc

theorem absQ_cast (c : ℚ) : ((absQ c : ℚ) : ℝ) = |(c : ℝ)| := by
  unfold absQ
  split_ifs with h
  · have : (c : ℝ) < 0 := by exact_mod_cast h
    rw [abs_of_neg this]; push_cast; ring
  · have : (0 : ℝ) ≤ c := by exact_mod_cast (not_lt.1 h)
    rw [abs_of_nonneg this]

/-- every real root of a non-zero polynomial lies strictly inside (−B, B) -/
theorem rootBound_sound (p : QPoly) (hp : isZero p = false) (x : ℝ) (hx : evalR p x = 0) :
    -((rootBound p : ℚ) : ℝ) < x ∧ x < ((rootBound p : ℚ) : ℝ) := by
  set t := trim p with ht
  have hne : t ≠ [] := by
    unfold isZero at hp
    intro h; rw [← ht, h] at hp; simp at hp
  obtain ⟨c, hc⟩ : ∃ c, t.getLast? = some c := by
    cases hl : t.getLast? with
    | none => exact absurd (List.getLast?_eq_none_iff.1 hl) hne
    | some c => exact ⟨c, rfl⟩
  have hc0 : c ≠ 0 := trim_getLast_ne_zero p c hc
  have hc0R : (c : ℝ) ≠ 0 := by exact_mod_cast hc0
  set n := t.length - 1 with hn
  have hlen : 0 < t.length := List.length_pos_iff.2 hne
  set P := toPolyR t with hP
  have hcoeffn : P.coeff n = (c : ℝ) := by
    rw [hP, coeff_toPolyR]
    have : t.getD n 0 = c := by
      rw [List.getLast?_eq_getElem?] at hc
      rw [List.getD_eq_getElem?_getD, ← hn] at *
      rw [hc]; rfl
    rw [this]
  have hdeg : P.natDegree = n := by
    apply natDegree_eq_of_le_of_coeff_ne_zero
    · rw [natDegree_le_iff_coeff_eq_zero]
      intro N hN
      rw [hP, coeff_toPolyR, List.getD_eq_getElem?_getD, List.getElem?_eq_none (by omega)]
      simp
    · rw [hcoeffn]; exact hc0R
  have hP0 : P ≠ 0 := by
    intro h0; rw [h0] at hcoeffn; simp at hcoeffn; exact hc0R hcoeffn.symm
  have hlc : P.leadingCoeff = (c : ℝ) := by rw [leadingCoeff, hdeg, hcoeffn]
  have hroot : P.IsRoot x := by
    rw [IsRoot.def]; have := evalR_trim p x; rw [hx] at this; exact this
  have hb := IsRoot.norm_lt_cauchyBound hP0 hroot
  -- the model's bound dominates the Cauchy bound
  set M : ℚ := t.dropLast.foldl (fun m d => max m (absQ d / absQ c)) 0 with hM
  have hB : rootBound p = 1 + M := by
    unfold rootBound
    simp only [← ht, hc, Option.getD_some, ← hM]
  have hM0 : 0 ≤ M := (foldl_max_ge (fun d => absQ d / absQ c) t.dropLast 0).1
  have hMc : ∀ d ∈ t.dropLast, absQ d / absQ c ≤ M := (foldl_max_ge (fun d => absQ d / absQ c) t.dropLast 0).2
  have hM0R : (0 : ℝ) ≤ (M : ℝ) := by exact_mod_cast hM0
  have hcpos : (0 : ℝ) < |(c : ℝ)| := abs_pos.2 hc0R
  have hcb : ((cauchyBound P : NNReal) : ℝ) ≤ (M : ℝ) + 1 := by
    unfold cauchyBound
    push_cast
    have hsup : ((Finset.sup (Finset.range P.natDegree) (fun i => ‖P.coeff i‖₊) : NNReal) : ℝ) ≤ (M : ℝ) * |(c : ℝ)| := by
      have : Finset.sup (Finset.range P.natDegree) (fun i => ‖P.coeff i‖₊) ≤ (⟨(M : ℝ) * |(c : ℝ)|, by positivity⟩ : NNReal) := by
        apply Finset.sup_le
        intro i hi
        rw [Finset.mem_range, hdeg] at hi
        show ((‖P.coeff i‖₊ : NNReal) : ℝ) ≤ (M : ℝ) * |(c : ℝ)|
        simp only [coe_nnnorm, Real.norm_eq_abs]
        rw [hP, coeff_toPolyR]
        have hil : i < t.dropLast.length := by rw [List.length_dropLast]; omega
        have hmem : t.getD i 0 ∈ t.dropLast := by
          have : t.getD i 0 = t.dropLast[i] := by
            rw [List.getD_eq_getElem?_getD, List.getElem_dropLast, List.getElem?_eq_getElem (by omega)]; rfl
          rw [this]; exact List.getElem_mem hil
        have h1 := hMc _ hmem
        have h2 : ((absQ (t.getD i 0) / absQ c : ℚ) : ℝ) ≤ (M : ℝ) := by exact_mod_cast h1
        rw [Rat.cast_div, absQ_cast, absQ_cast, div_le_iff₀ hcpos] at h2
        exact h2
      exact_mod_cast this
    rw [hlc]
    simp only [Real.norm_eq_abs]
    have : ((Finset.sup (Finset.range P.natDegree) (fun i => ‖P.coeff i‖₊) : NNReal) : ℝ) / |(c : ℝ)| ≤ (M : ℝ) := by
      rw [div_le_iff₀ hcpos]; exact hsup
    linarith
  have hxlt : |x| < ((rootBound p : ℚ) : ℝ) := by
    have h1 : ‖x‖ < ((cauchyBound P : NNReal) : ℝ) := by exact_mod_cast hb
    rw [Real.norm_eq_abs] at h1
    rw [hB]; push_cast; linarith
  exact abs_lt.1 hxlt


theorem rootBound_pos (p : QPoly) : 0 < rootBound p := by
  unfold rootBound
  have := (foldl_max_ge (fun d => absQ d / absQ ((trim p).getLast?.getD 1)) (trim p).dropLast 0).1
  simp only at this ⊢
  linarith

/-- all real roots of a non-zero polynomial -/
theorem isolateAll_sound (p : QPoly) (hp : isZero p = false) (L : List Cell) (h : isolateAll p = some L) :
    ∃ rs : List ℝ, rs.length = L.length ∧ Enumerates rs (fun x => evalR p x = 0) := by
  unfold isolateAll at h
  have hB := rootBound_pos p
  have hlt : -rootBound p < rootBound p := by linarith
  obtain ⟨rs, hlen, hpw, hmem⟩ := isolates_enumerates p _ _ L (isolateOpen_sound p _ _ L hlt h)
  refine ⟨rs, hlen, hpw, fun x => ?_⟩
  rw [hmem x]
  constructor
  · rintro ⟨_, _, h3⟩; exact h3
  · intro h3
    have := rootBound_sound p hp x h3
    refine ⟨?_, this.2, h3⟩
    push_cast; exact this.1

/-- **distinct real roots**: a successful `realRoots` lists cells whose number is the number of distinct real
    roots of `p`: there is a strictly increasing list of that length enumerating exactly the real roots -/
theorem realRoots_sound (p : QPoly) (L : List Cell) (h : realRoots p = some L) :
    ∃ rs : List ℝ, rs.length = L.length ∧ Enumerates rs (fun x => evalR p x = 0) := by
  unfold realRoots at h
  cases hs : sqfreePart p with
  | none => rw [hs] at h; simp at h
  | some s =>
    rw [hs] at h
    simp only [Option.bind_some] at h
    split_ifs at h with hz
    have hz' : isZero s = false := by simpa using hz
    obtain ⟨rs, hlen, hpw, hmem⟩ := isolateAll_sound s hz' L h
    exact ⟨rs, hlen, hpw, fun x => by rw [hmem x]; show _ ↔ _; simp only [sqfreePart_sound p s hs x]⟩

/-- **distinct real roots in an interval** -/
theorem countRootsIn_sound (p : QPoly) (a : ℚ) (ao : Bool) (b : ℚ) (bo : Bool) (k : ℕ)
    (h : countRootsIn p a ao b bo = some k) :
    ∃ rs : List ℝ, rs.length = k ∧ Enumerates rs (fun x => InI a ao b bo x ∧ evalR p x = 0) := by
  unfold countRootsIn at h
  cases hs : sqfreePart p with
  | none => rw [hs] at h; simp at h
  | some s =>
    rw [hs] at h
    simp only [Option.bind_some] at h
    obtain ⟨rs, hlen, hpw, hmem⟩ := countIn_sound s a ao b bo k h
    exact ⟨rs, hlen, hpw, fun x => by rw [hmem x]; show _ ↔ _; simp only [sqfreePart_sound p s hs x]⟩

/-- a strictly increasing list of roots as long as the list of all roots is the list of all roots -/
theorem enumerates_of_length (S : ℝ → Prop) (rs rs' : List ℝ) (h : Enumerates rs S)
    (hpw : rs'.Pairwise (· < ·)) (hS : ∀ x ∈ rs', S x) (hlen : rs'.length = rs.length) : Enumerates rs' S := by
  refine ⟨hpw, fun x => ⟨hS x, fun hx => ?_⟩⟩
  have nd : rs.Nodup := h.1.imp (fun h => ne_of_lt h)
  have nd' : rs'.Nodup := hpw.imp (fun h => ne_of_lt h)
  have hsub : rs'.toFinset ⊆ rs.toFinset := by
    intro y hy
    rw [List.mem_toFinset] at hy ⊢
    exact (h.2 y).2 (hS y hy)
  have hcard : rs.toFinset.card ≤ rs'.toFinset.card := by
    rw [List.toFinset_card_of_nodup nd, List.toFinset_card_of_nodup nd', hlen]
  have heq := Finset.eq_of_subset_of_card_le hsub hcard
  have : x ∈ rs.toFinset := by rw [List.mem_toFinset]; exact (h.2 x).2 hx
  rw [← heq, List.mem_toFinset] at this
  exact this

end QPoly
end LP
