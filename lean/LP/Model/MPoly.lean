/-
  Reference model of multivariate polynomials over Z and Z_M (C01, C02, C18, C19, and the validators):
  a polynomial is a list of terms (monomial, coefficient); the canonical form is strictly sorted by
  monomial with non-zero coefficients (in Z_M: symmetric representatives).  All arithmetic is
  "concatenate / multiply out, then normalise", which keeps the semantic proofs short.
  Core Lean only.
-/
import LP.Model.Scalar
namespace LP

/-- a monomial: (variable id, exponent) pairs, canonical = strictly increasing ids, positive exponents -/
abbrev Mono := List (Nat × Nat)

namespace Mono

def insertVar (x e : Nat) : Mono → Mono
  | [] => if e = 0 then [] else [(x, e)]
  | (y, f) :: r =>
    if e = 0 then (y, f) :: r
    else if x < y then (x, e) :: (y, f) :: r
    else if x = y then (y, f + e) :: r
    else (y, f) :: insertVar x e r

/-- canonical form of an arbitrary list of powers -/
def norm (m : Mono) : Mono := m.foldr (fun p acc => insertVar p.1 p.2 acc) []

def mul (a b : Mono) : Mono := norm (a ++ b)

/-- total order on canonical monomials (lexicographic on the pair lists) -/
def lt : Mono → Mono → Bool
  | [], [] => false
  | [], _ :: _ => true
  | _ :: _, [] => false
  | (x, e) :: r, (y, f) :: s =>
    if x < y then true else if y < x then false
    else if e < f then true else if f < e then false
    else lt r s

def degreeIn (x : Nat) (m : Mono) : Nat := (m.filter (fun p => p.1 = x)).foldl (fun acc p => acc + p.2) 0
def totalDegree (m : Mono) : Nat := m.foldl (fun acc p => acc + p.2) 0
def vars (m : Mono) : List Nat := m.map (·.1)
/-- remove variable x from the monomial -/
def without (x : Nat) (m : Mono) : Mono := m.filter (fun p => p.1 ≠ x)

end Mono

abbrev Term := Mono × Int
/-- a polynomial as a list of terms -/
abbrev MPoly := List Term

namespace MPoly

/-- insert a term into a canonical list (sorted by `Mono.lt`), combining equal monomials and dropping zeros;
    coefficients are normalised into the ring `K`. -/
def insertTerm (K : Ring) (m : Mono) (c : Int) : MPoly → MPoly
  | [] => if norm K c = 0 then [] else [(m, norm K c)]
  | (n, d) :: r =>
    if Mono.lt m n then (if norm K c = 0 then (n, d) :: r else (m, norm K c) :: (n, d) :: r)
    else if m = n then (if norm K (c + d) = 0 then r else (n, norm K (c + d)) :: r)
    else (n, d) :: insertTerm K m c r

/-- canonical form -/
def normalize (K : Ring) (p : MPoly) : MPoly := p.foldr (fun t acc => insertTerm K (Mono.norm t.1) t.2 acc) []

def zero : MPoly := []
def const (K : Ring) (c : Int) : MPoly := normalize K [([], c)]
def add (K : Ring) (p q : MPoly) : MPoly := normalize K (p ++ q)
def neg (K : Ring) (p : MPoly) : MPoly := normalize K (p.map (fun t => (t.1, -t.2)))
def sub (K : Ring) (p q : MPoly) : MPoly := add K p (neg K q)
def mulTerm (m : Mono) (c : Int) (p : MPoly) : MPoly := p.map (fun t => (m ++ t.1, c * t.2))
def mul (K : Ring) (p q : MPoly) : MPoly := normalize K (p.flatMap (fun t => mulTerm t.1 t.2 q))
def mulInt (K : Ring) (p : MPoly) (c : Int) : MPoly := normalize K (p.map (fun t => (t.1, c * t.2)))
def pow (K : Ring) (p : MPoly) : Nat → MPoly
  | 0 => const K 1
  | n+1 => mul K (pow K p n) p
def addMul (K : Ring) (s a b : MPoly) : MPoly := add K s (mul K a b)
def subMul (K : Ring) (s a b : MPoly) : MPoly := sub K s (mul K a b)
/-- multiply by x^n -/
def shl (K : Ring) (p : MPoly) (x n : Nat) : MPoly := normalize K (mulTerm [(x, n)] 1 p)
/-- partial derivative in x -/
def derivative (K : Ring) (p : MPoly) (x : Nat) : MPoly :=
  normalize K (p.filterMap (fun t =>
    let d := Mono.degreeIn x t.1
    if d = 0 then none
    else some ((if d = 1 then [] else [(x, d - 1)]) ++ Mono.without x t.1, (d : Int) * t.2)))

/-- evaluate at an integer assignment (variables not listed are 0) -/
def evalInt (p : MPoly) (asg : Nat → Int) : Int :=
  p.foldl (fun acc t => acc + t.2 * t.1.foldl (fun a q => a * asg q.1 ^ q.2) 1) 0
def evalRat (p : MPoly) (asg : Nat → Rat) : Rat :=
  p.foldl (fun acc t => acc + (t.2 : Rat) * t.1.foldl (fun a q => a * asg q.1 ^ q.2) 1) 0

def degreeIn (x : Nat) (p : MPoly) : Nat := p.foldl (fun acc t => max acc (Mono.degreeIn x t.1)) 0
def vars (p : MPoly) : List Nat := (p.flatMap (fun t => Mono.vars t.1)).eraseDups
/-- coefficient of x^k as a polynomial in the remaining variables -/
def coeffIn (K : Ring) (x k : Nat) (p : MPoly) : MPoly :=
  normalize K (p.filterMap (fun t => if Mono.degreeIn x t.1 = k then some (Mono.without x t.1, t.2) else none))

/-- is the term list literally in canonical form (sorted, non-zero, in-range coefficients, canonical monomials) -/
def sortedLt : MPoly → Bool
  | [] => true
  | [_] => true
  | a :: b :: r => Mono.lt a.1 b.1 && sortedLt (b :: r)
def monoCanon : Mono → Bool
  | [] => true
  | [p] => p.2 > 0
  | p :: q :: r => p.2 > 0 && p.1 < q.1 && monoCanon (q :: r)
def isCanonical (K : Ring) (p : MPoly) : Bool :=
  sortedLt p && p.all (fun t => t.2 ≠ 0 && inRing K t.2 && monoCanon t.1)

end MPoly
end LP
