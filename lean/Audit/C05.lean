import LP.Props.C05
import LP.Props.C03Fp
#print axioms LP.Factor.toPolyZ_mul
#print axioms LP.Factor.toPolyZ_pow
#print axioms LP.Factor.toPolyZ_trim
#print axioms LP.Factor.toPolyZ_product
#print axioms LP.Factor.C05_product_sound
#print axioms LP.QPoly.C05_sqfree_cert_sound
#print axioms LP.QPoly.C03_coprimeCert_sound
#print axioms LP.FPoly.coprimeCert_sound
