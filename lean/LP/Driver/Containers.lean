import LP.Model.Containers
import LP.Driver.Scalar
namespace LP.Driver
open LP

def pElem? (s : String) : Option Elem :=
  match s.splitOn "#" with
  | [k, h] => do
      let k ← pNat? k
      let h ← pNat? h
      some ⟨k, h⟩
  | _ => none

structure HOp where
  op : String
  elems : List Elem

def pHOps? (s : String) : Option (List HOp) :=
  (s.splitOn ",").mapM (fun t =>
    match t.splitOn ":" with
    | [o, es] => ((es.splitOn "+").mapM pElem?).map (fun l => (⟨o, l⟩ : HOp))
    | _ => none)

/-- replay a hash-set history through the mirror and the abstract set simultaneously.
    Returns (model returns, spec returns, final model, final spec). -/
def runHSet (ops : List HOp) : List Int × List Int × HSet × SpecSet × Bool :=
  ops.foldl (fun (st : List Int × List Int × HSet × SpecSet × Bool) o =>
    let (mr, sr, m, sp, closed) := st
    let e := o.elems.headD ⟨0, 0⟩
    match o.op with
    | "i" =>
      let r := m.insert e
      (mr ++ [if r.2 then 1 else 0], sr ++ [if sp.has e.key then 0 else 1], r.1, sp.ins e.key, closed)
    | "m" =>
      let r := m.insert e
      (mr ++ [if r.2 then 11 else 0], sr ++ [if sp.has e.key then 0 else 11], r.1, sp.ins e.key, closed)
    | "r" =>
      let r := m.remove e
      (mr ++ [if r.2 then 1 else 0], sr ++ [if sp.has e.key then 1 else 0], r.1, sp.del e.key, closed)
    | "c" => (mr ++ [if m.contains e then 1 else 0], sr ++ [if sp.has e.key then 1 else 0], m, sp, closed)
    | "s" => (mr ++ [(m.size : Int) * 10 + (if m.size = 0 then 1 else 0)],
              sr ++ [(sp.keys.length : Int) * 10 + (if sp.keys.length = 0 then 1 else 0)], m, sp, closed)
    | "x" =>
      if o.elems = [⟨0, 0⟩] then (mr ++ [-1], sr ++ [-1], m, sp, closed) else
      let keep : Elem → Bool := fun x => o.elems.any (fun y => y.key = x.key)
      let m' := m.intersect keep
      let sp' : SpecSet := ⟨sp.keys.filter (fun k => o.elems.any (fun y => y.key = k))⟩
      (mr ++ [(m'.size : Int)], sr ++ [(sp'.keys.length : Int)], m', sp', closed)
    | "v" =>
      let r := o.elems.foldl (fun (acc : HSet × SpecSet × Int × Int) x =>
        let i := acc.1.insert x
        (i.1, acc.2.1.ins x.key, acc.2.2.1 + (if i.2 then 1 else 0), acc.2.2.2 + (if acc.2.1.has x.key then 0 else 1))) (m, sp, 0, 0)
      (mr ++ [r.2.2.1], sr ++ [r.2.2.2], r.1, r.2.1, closed)
    | "l" => (mr ++ [0], sr ++ [0], HSet.empty, ⟨[]⟩, closed)
    | "k" => (mr ++ [0], sr ++ [0], m, sp, true)
    | _ => st) ([], [], HSet.empty, ⟨[]⟩, false)

def showSlots (s : HSet) : String :=
  ",".intercalate (s.data.toList.map (fun o => match o with | some e => toString e.key | none => "."))

def sortNat (l : List Nat) : List Nat := l.mergeSort (· ≤ ·)

def checkHSet (args res : List String) : Verdict :=
  match args, res with
  | [opsS], retS :: "|" :: sizeS :: dsizeS :: closedS :: slotsS :: _ =>
    (match pHOps? opsS, pList? pInt? retS, pNat? sizeS, pNat? dsizeS with
     | some ops, some rets0, some size, some dsize =>
       -- a move-insert that did not insert leaves the source alone: only the inserted flag is compared then
       let rets := (rets0.zip (ops.map (·.op))).map (fun p => if p.2 = "m" ∧ p.1 < 10 then 0 else p.1)
       let (mr, sr, m, sp, closed) := runHSet ops
       let gotKeys : List Nat := (slotsS.splitOn ",").filterMap pNat?
       let tag := s!"hset/{if ops.length > 50 then "long" else "short"}/{if dsize > 64 then "grown" else "base"}/{if closed then "closed" else "open"}"
       -- property level: returns and final contents against the abstract set
       if rets ≠ sr then
         let idx := ((rets.zip sr).zipIdx.find? (fun p => p.1.1 ≠ p.1.2)).map (·.2)
         .viol "hset-returns" s!"return values differ from a mathematical set at op {idx}: got {rets} want {sr}"
       else if sortNat gotKeys ≠ sortNat sp.keys ∨ size ≠ sp.keys.length then
         .viol "hset-contents" s!"final contents/size differ from a mathematical set: size {size} keys {sortNat gotKeys} want {sortNat sp.keys}"
       else if closedS = "1" ∧ gotKeys.length ≠ size then
         .viol "hset-close" "enumeration after close has repetitions or gaps"
       else
         -- mirror level: slot-by-slot layout
         let layoutOk := if closed then gotKeys = m.keys else slotsS = showSlots m
         if mr = rets ∧ layoutOk ∧ dsize = m.data.size then .ok tag
         else .disagree s!"layout differs: model {if closed then toString m.keys else showSlots m}"
     | _, _, _, _ => .skip "bad hset line")
  | _, _ => .skip "bad hset shape"

/-! ### heap -/

structure KOp where
  op : String
  ids : List Int

def pKOps? (s : String) : Option (List KOp) :=
  (s.splitOn ",").mapM (fun t =>
    match t.splitOn ":" with
    | [o, es] => ((es.splitOn "+").mapM pInt?).map (fun l => (⟨o, l⟩ : KOp))
    | _ => none)

def runHeap (ops : List KOp) : List Int × List Int × Heap × List Int :=
  ops.foldl (fun (st : List Int × List Int × Heap × List Int) o =>
    let (mr, sr, h, bag) := st
    let x := o.ids.headD 0
    match o.op with
    | "p" => let h' := h.push x; (mr ++ [(h'.data.size : Int)], sr ++ [(bag.length + 1 : Int)], h', x :: bag)
    | "m" => let h' := h.push x; (mr ++ [(h'.data.size : Int) * 10 + 1], sr ++ [(bag.length + 1 : Int) * 10 + 1], h', x :: bag)
    | "q" =>
      let r := h.pop
      let sm := listMax? bag
      (mr ++ [r.2.getD (-1)], sr ++ [sm.getD (-1)], r.1, match sm with | some m => eraseOne bag m | none => bag)
    | "t" => (mr ++ [h.peek.getD (-1)], sr ++ [(listMax? bag).getD (-1)], h, bag)
    | "r" =>
      let r := h.remove x
      (mr ++ [(r.2 : Int)], sr ++ [((bag.filter (· = x)).length : Int)], r.1, bag.filter (· ≠ x))
    | "v" =>
      let h' := o.ids.foldl (fun acc y => acc.push y) h
      (mr ++ [(h'.data.size : Int)], sr ++ [(bag.length + o.ids.length : Int)], h', o.ids.reverse ++ bag)
    | "l" => (mr ++ [0], sr ++ [0], Heap.empty, [])
    | _ => st) ([], [], Heap.empty, [])

def heapOrdered (a : List Int) : Bool :=
  let arr := a.toArray
  (List.range arr.size).all (fun i => i = 0 || arr.getD ((i + 1) / 2 - 1) 0 ≥ arr.getD i 0)

def sortInt (l : List Int) : List Int := l.mergeSort (· ≤ ·)

def checkHeap (args res : List String) : Verdict :=
  match args, res with
  | [opsS], retS :: "|" :: sizeS :: arrS :: extra =>
    (match pKOps? opsS, pList? pInt? retS, pNat? sizeS, pList? pInt? arrS with
     | some ops, some rets, some size, some arr =>
       let (mr, sr, h, bag) := runHeap ops
       if !extra.isEmpty then .viol "heap-at" "at(size) is not NULL" else
       if rets ≠ sr then
         let idx := ((rets.zip sr).zipIdx.find? (fun p => p.1.1 ≠ p.1.2)).map (·.2)
         .viol "heap-returns" s!"pop/peek/remove/size answers differ from a multiset with max-extraction at op {idx}: got {rets} want {sr}"
       else if sortInt arr ≠ sortInt bag ∨ size ≠ bag.length then
         .viol "heap-contents" s!"final contents differ from the multiset pushed minus popped/removed: {arr} vs {sortInt bag}"
       else if !heapOrdered arr then .viol "heap-order" s!"final array is not heap ordered: {arr}"
       else if mr = rets ∧ arr = h.data.toList then .ok s!"heap/{if ops.length > 40 then "long" else "short"}"
       else .disagree s!"layout differs: model {h.data.toList}"
     | _, _, _, _ => .skip "bad heap line")
  | _, _ => .skip "bad heap shape"

def checkPVec (args res : List String) : Verdict :=
  match args, res with
  | [opsS], retS :: "|" :: sizeS :: arrS :: _ =>
    (match pKOps? opsS, pList? pInt? retS, pNat? sizeS, pList? pInt? arrS with
     | some ops, some rets, some size, some arr =>
       let want : List Int := ops.map (fun o => o.ids.headD 0)
       let wr : List Int := (ops.zipIdx).map (fun p => if p.1.op = "m" then ((p.2 + 1 : Nat) : Int) * 10 + 1 else ((p.2 + 1 : Nat) : Int))
       if arr = want ∧ size = want.length ∧ rets = wr then .ok "pvec"
       else .viol "pvec" s!"vector contents {arr} / returns {rets} differ from insertion order {want} / {wr}"
     | _, _, _, _ => .skip "bad pvec line")
  | _, _ => .skip "bad pvec shape"

end LP.Driver
