/* C01 / C19 harness: ring arithmetic of multivariate (lp_polynomial_t) and univariate (lp_upolynomial_t)
 * polynomials over Z and Z_m.  Destinations: f fresh, c constant, p polynomial of unrelated shape,
 * a / b the destination IS the first / second operand.
 *   poly <op> <ring> <dest> A [B] [n] => R
 *   up   <op> <ring> A [B] [n]        => R
 */
#include "hpoly.h"

static const char* DK = "fcpab";

static void poly_case(void) {
  int ri = chance(45) ? 0 : (int)rnd(NRINGS);
  int nv = 1 + (int)rnd(NVARS);
  unsigned md = 1 + rnd(3);
  lp_polynomial_t* A = hp_random_poly(ri, nv, md, 5);
  lp_polynomial_t* B = chance(10) ? lp_polynomial_new_copy(A) : hp_random_poly(ri, nv, md, 5);
  if (chance(8)) { lp_polynomial_neg(B, A); if (chance(50)) { lp_polynomial_t* s = hp_random_poly(ri, 1, 1, 1); lp_polynomial_add(B, B, s); lp_polynomial_delete(s); } }  /* cancellation */
  lp_polynomial_t* S = hp_random_poly(ri, nv, md, 3);
  int dk = (int)rnd(5);
  lp_polynomial_t* D = dk < 3 ? hp_dest(ri, dk) : 0;
  lp_polynomial_t* out = dk < 3 ? D : dk == 3 ? A : B;
  char dest[2] = { DK[dk], 0 };
  unsigned op = rnd(14);
  /* sometimes the operands are external polynomials built under the previous variable order and the operation is the first call
     that sees them after the order has been reversed (tokens and the twin are taken before the change) */
  char* tokA = 0; char* tokB = 0; lp_polynomial_t* TA = 0;
  if (nv > 1 && chance(12) && (op <= 5 || op == 8 || op == 9)) {
    TA = lp_polynomial_new_copy(A);
    lp_polynomial_set_external(A); lp_polynomial_set_external(B);
    tokA = hp_tok(A); tokB = hp_tok(B);
    hp_stale_begin();
    if (D) lp_polynomial_ensure_order(D);
  }
#define PA() do { if (tokA) sb_str(tokA); else sb_poly(A); } while (0)
#define PB() do { if (tokB) sb_str(tokB); else sb_poly(B); } while (0)
  switch (op) {
  case 0: case 1: case 2: {
    const char* nm = op == 0 ? "add" : op == 1 ? "sub" : "mul";
    sb_begin("poly", nm); sb_sp(); hp_ring_token(ri); sb_sp(); sb_str(dest); sb_sp(); PA(); sb_sp(); PB(); sb_arrow();
    if (op == 0) lp_polynomial_add(out, A, B); else if (op == 1) lp_polynomial_sub(out, A, B); else lp_polynomial_mul(out, A, B);
    sb_sp(); sb_poly(out); sb_emit();
    break; }
  case 3: {
    if (dk == 4) { out = A; dest[0] = 'a'; }
    sb_begin("poly", "neg"); sb_sp(); hp_ring_token(ri); sb_sp(); sb_str(dest); sb_sp(); PA(); sb_arrow();
    lp_polynomial_neg(out, A); sb_sp(); sb_poly(out); sb_emit();
    break; }
  case 4: {
    if (dk == 4) { out = A; dest[0] = 'a'; }
    lp_integer_t c; lp_integer_construct(&c); hp_gen_coeff(&c, ri); if (chance(10)) lp_integer_assign_int(lp_Z, &c, 0);
    sb_begin("poly", "mulint"); sb_sp(); hp_ring_token(ri); sb_sp(); sb_str(dest); sb_sp(); PA(); sb_sp(); sb_mpz(&c); sb_arrow();
    lp_polynomial_mul_integer(out, A, &c); sb_sp(); sb_poly(out); sb_emit();
    lp_integer_destruct(&c);
    break; }
  case 5: {
    if (dk == 4) { out = A; dest[0] = 'a'; }
    unsigned n = rnd(4);
    sb_begin("poly", "pow"); sb_sp(); hp_ring_token(ri); sb_sp(); sb_str(dest); sb_sp(); PA(); sb_sp(); sb_ulong(n); sb_arrow();
    lp_polynomial_pow(out, A, n); sb_sp(); sb_poly(out); sb_emit();
    break; }
  case 6: case 7: { /* fused: S (+/-)= A*B ; S may alias A or B */
    lp_polynomial_t* acc = dk == 3 ? A : dk == 4 ? B : S;
    sb_begin("poly", op == 6 ? "addmul" : "submul"); sb_sp(); hp_ring_token(ri); sb_sp(); sb_str(dk == 3 ? "a" : dk == 4 ? "b" : "s"); sb_sp();
    sb_poly(acc); sb_sp(); sb_poly(A); sb_sp(); sb_poly(B); sb_arrow();
    if (op == 6) lp_polynomial_add_mul(acc, A, B); else lp_polynomial_sub_mul(acc, A, B);
    sb_sp(); sb_poly(acc); sb_emit();
    break; }
  case 8: { /* shift by a power of the main variable (A must be non-constant) */
    if (lp_polynomial_is_constant(A)) break;
    if (dk == 4) { out = A; dest[0] = 'a'; }
    unsigned n = rnd(4);
    sb_begin("poly", "shl"); sb_sp(); hp_ring_token(ri); sb_sp(); sb_str(dest); sb_sp(); PA(); sb_sp(); sb_ulong(TA ? (unsigned long)hp_topvar_twin(TA) : lp_polynomial_top_variable(A)); sb_sp(); sb_ulong(n); sb_arrow();
    lp_polynomial_shl(out, A, n); sb_sp(); sb_poly(out); sb_emit();
    break; }
  case 9: { /* derivative in the main variable */
    if (dk == 4) { out = A; dest[0] = 'a'; }
    long tv = lp_polynomial_is_constant(A) ? -1 : TA ? hp_topvar_twin(TA) : (long)lp_polynomial_top_variable(A);
    sb_begin("poly", "deriv"); sb_sp(); hp_ring_token(ri); sb_sp(); sb_str(dest); sb_sp(); PA(); sb_sp(); sb_long(tv); sb_arrow();
    lp_polynomial_derivative(out, A); sb_sp(); sb_poly(out); sb_emit();
    break; }
  case 10: { /* cancellation followed by in-place growth: (A - A + small), then shl / add_monomial in place */
    lp_polynomial_t* W = lp_polynomial_new_copy(A);
    lp_polynomial_t* sm = hp_random_poly(ri, nv, 1, 2);
    lp_polynomial_sub(W, W, A); lp_polynomial_add(W, W, sm);     /* W shrank to `sm` in place */
    lp_polynomial_add(W, W, A); lp_polynomial_sub(W, W, A);     /* grow and shrink again */
    sb_begin("poly", "shrink"); sb_sp(); hp_ring_token(ri); sb_sp(); sb_str("a"); sb_sp(); sb_poly(sm); sb_arrow(); sb_sp(); sb_poly(W); sb_emit();
    if (!lp_polynomial_is_constant(W)) {
      unsigned n = 1 + rnd(3);
      sb_begin("poly", "shl"); sb_sp(); hp_ring_token(ri); sb_sp(); sb_str("a"); sb_sp(); sb_poly(W); sb_sp(); sb_ulong(lp_polynomial_top_variable(W)); sb_sp(); sb_ulong(n); sb_arrow();
      lp_polynomial_shl(W, W, n); sb_sp(); sb_poly(W); sb_emit();
    }
    { /* add_monomial in place */
      lp_monomial_t m; lp_monomial_construct(hp_ctx[ri], &m);
      lp_integer_t c; lp_integer_construct(&c); hp_gen_coeff(&c, ri); lp_integer_assign(hp_ring[ri], &c, &c);
      lp_monomial_set_coefficient(hp_ctx[ri], &m, &c);
      for (int i = 0; i < nv; ++i) if (chance(50)) lp_monomial_push(&m, hp_x[i], 1 + rnd(3));
      sb_begin("poly", "addmono"); sb_sp(); hp_ring_token(ri); sb_sp(); sb_str("a"); sb_sp(); sb_poly(W); sb_sp();
      sb_mpz(&m.a); for (size_t i = 0; i < m.n; ++i) { sb_str("*x"); sb_ulong(m.p[i].x); sb_str("^"); sb_ulong(m.p[i].d); }
      sb_arrow();
      lp_polynomial_add_monomial(W, &m); sb_sp(); sb_poly(W); sb_emit();
      lp_integer_destruct(&c); lp_monomial_destruct(&m);
    }
    lp_polynomial_delete(W); lp_polynomial_delete(sm);
    break; }
  case 11: { /* evaluation at an integer point (all variables assigned) */
    lp_assignment_t* m = lp_assignment_new(hp_db);
    sb_begin("poly", "evalint"); sb_sp(); hp_ring_token(ri); sb_sp(); sb_str("-"); sb_sp(); sb_poly(A); sb_sp();
    for (int i = 0; i < NVARS; ++i) { long v = rnd_in(-4, 4); lp_value_t val; lp_integer_t z; lp_integer_construct_from_int(lp_Z, &z, v);
      lp_value_construct(&val, LP_VALUE_INTEGER, &z); lp_assignment_set_value(m, hp_x[i], &val); lp_value_destruct(&val); lp_integer_destruct(&z);
      if (i) sb_str(","); sb_long(v); }
    sb_arrow();
    lp_integer_t r; lp_integer_construct(&r); lp_polynomial_evaluate_integer(A, m, &r);
    sb_sp(); sb_mpz(&r); sb_emit();
    lp_integer_destruct(&r); lp_assignment_delete(m);
    break; }
  case 12: { /* univariate <-> multivariate conversion */
    lp_polynomial_t* U = hp_random_poly(ri, 1, 4, 5);
    if (lp_polynomial_is_univariate(U) && !lp_polynomial_is_constant(U)) {
      lp_upolynomial_t* u = lp_polynomial_to_univariate(U);
      sb_begin("poly", "touni"); sb_sp(); hp_ring_token(ri); sb_sp(); sb_str("-"); sb_sp(); sb_poly(U); sb_arrow(); sb_sp(); sb_upoly(u); sb_emit();
      lp_polynomial_t* back = lp_upolynomial_to_polynomial(u, hp_ctx[ri], hp_x[1]);
      sb_begin("poly", "fromuni"); sb_sp(); hp_ring_token(ri); sb_sp(); sb_str("-"); sb_sp(); sb_upoly(u); sb_sp(); sb_ulong(hp_x[1]); sb_arrow(); sb_sp(); sb_poly(back); sb_emit();
      lp_polynomial_delete(back); lp_upolynomial_delete(u);
    }
    lp_polynomial_delete(U);
    break; }
  default: { /* numeric operands into a polynomial-shaped destination, and copies */
    lp_polynomial_t* c1 = hp_dest(ri, 1); lp_polynomial_t* c2 = hp_dest(ri, 1); lp_polynomial_t* P = hp_dest(ri, 2);
    unsigned w = rnd(3);
    sb_begin("poly", w == 0 ? "add" : w == 1 ? "sub" : "mul"); sb_sp(); hp_ring_token(ri); sb_sp(); sb_str("p"); sb_sp(); sb_poly(c1); sb_sp(); sb_poly(c2); sb_arrow();
    if (w == 0) lp_polynomial_add(P, c1, c2); else if (w == 1) lp_polynomial_sub(P, c1, c2); else lp_polynomial_mul(P, c1, c2);
    sb_sp(); sb_poly(P); sb_emit();
    sb_begin("poly", "assign"); sb_sp(); hp_ring_token(ri); sb_sp(); sb_str("p"); sb_sp(); sb_poly(A); sb_arrow();
    lp_polynomial_assign(P, A); sb_sp(); sb_poly(P); sb_emit();
    lp_polynomial_delete(c1); lp_polynomial_delete(c2); lp_polynomial_delete(P);
    break; }
  }
  /* structural observers on every object the case touched: printing alone cannot see a non-canonical representation */
  if (hp_stale_on) { hp_stale_end(); lp_polynomial_ensure_order(S); if (D) lp_polynomial_ensure_order(D); }   /* back to the order the observers assume */
  { lp_polynomial_t* objs[4] = { A, B, S, D };
    for (int k = 0; k < 4; ++k) { if (!objs[k]) continue;
      sb_begin("poly", "obs"); sb_sp(); hp_ring_token(ri); sb_sp(); sb_str("f"); sb_sp(); sb_poly(objs[k]); sb_arrow();
      sb_sp(); sb_long(lp_polynomial_is_zero(objs[k])); sb_sp(); sb_long(lp_polynomial_is_constant(objs[k])); sb_sp(); sb_ulong(lp_polynomial_degree(objs[k]));
      sb_sp(); if (lp_polynomial_is_constant(objs[k])) sb_str("-"); else sb_ulong(lp_polynomial_top_variable(objs[k]));
      sb_emit(); } }
  hp_stale_end(); free(tokA); free(tokB); if (TA) lp_polynomial_delete(TA);
  lp_polynomial_delete(A); lp_polynomial_delete(B); lp_polynomial_delete(S); if (D) lp_polynomial_delete(D);
  /* c*x^n for every kind of c, including 0 and multiples of the modulus */
  if (chance(25)) {
    lp_integer_t c; lp_integer_construct(&c); hp_gen_coeff(&c, ri);
    unsigned w = rnd(4);
    if (w == 0) lp_integer_assign_int(lp_Z, &c, 0);
    else if (w == 1 && ri != 0) mpz_set(&c, &hp_ring[ri]->M);                 /* = 0 in the ring */
    unsigned n = rnd(4); lp_variable_t x = hp_x[rnd(NVARS)];
    lp_polynomial_t* q = lp_polynomial_alloc();
    sb_begin("poly", "simple"); sb_sp(); hp_ring_token(ri); sb_sp(); sb_str("f"); sb_sp(); sb_mpz(&c); sb_sp(); sb_ulong(x); sb_sp(); sb_ulong(n); sb_arrow();
    lp_polynomial_construct_simple(q, hp_ctx[ri], &c, x, n);
    sb_sp(); sb_poly(q);
    sb_sp(); sb_long(lp_polynomial_is_zero(q)); sb_sp(); sb_long(lp_polynomial_is_constant(q)); sb_sp(); sb_ulong(lp_polynomial_degree(q));
    sb_emit();
    lp_polynomial_delete(q); lp_integer_destruct(&c);
  }
}

static void upoly_case(void) {
  int ri = chance(40) ? 0 : (int)rnd(NRINGS);
  lp_upolynomial_t* A = hp_random_upoly(ri, 6);
  lp_upolynomial_t* B = chance(10) ? lp_upolynomial_construct_copy(A) : hp_random_upoly(ri, 6);
  if (chance(8)) { lp_upolynomial_delete(B); B = lp_upolynomial_neg(A); }
  unsigned op = rnd(12);
  lp_upolynomial_t* R = 0;
  /* lp_upolynomial_cmp: zero exactly for equal polynomials, antisymmetric (operands that share their leading terms included) */
  if (chance(15)) {
    lp_upolynomial_t* C = B;
    if (chance(40)) { /* A plus lower-order terms, or A with its low terms cut off */
      lp_upolynomial_t* low = hp_random_upoly(ri, lp_upolynomial_degree(A) > 0 ? lp_upolynomial_degree(A) - 1 : 0);
      C = chance(50) ? lp_upolynomial_add(A, low) : lp_upolynomial_sub(A, low);
      lp_upolynomial_delete(low);
    }
    sb_begin("up", "cmp"); sb_sp(); hp_ring_token(ri); sb_sp(); sb_upoly(A); sb_sp(); sb_upoly(C); sb_arrow();
    int c1 = lp_upolynomial_cmp(A, C), c2 = lp_upolynomial_cmp(C, A);
    sb_sp(); sb_long(sgn_of(c1)); sb_sp(); sb_long(sgn_of(c2)); sb_emit();
    if (C != B) lp_upolynomial_delete(C);
  }
  switch (op) {
  case 0: case 1: case 2: {
    const char* nm = op == 0 ? "add" : op == 1 ? "sub" : "mul";
    sb_begin("up", nm); sb_sp(); hp_ring_token(ri); sb_sp(); sb_upoly(A); sb_sp(); sb_upoly(B); sb_arrow();
    R = op == 0 ? lp_upolynomial_add(A, B) : op == 1 ? lp_upolynomial_sub(A, B) : lp_upolynomial_mul(A, B);
    sb_sp(); sb_upoly(R); sb_emit();
    break; }
  case 3: { sb_begin("up", "neg"); sb_sp(); hp_ring_token(ri); sb_sp(); sb_upoly(A); sb_arrow(); R = lp_upolynomial_neg(A); sb_sp(); sb_upoly(R); sb_emit();
    sb_begin("up", "neg"); sb_sp(); hp_ring_token(ri); sb_sp(); sb_upoly(B); sb_arrow(); lp_upolynomial_neg_in_place(B); sb_sp(); sb_upoly(B); sb_emit();
    break; }
  case 4: { lp_integer_t c; lp_integer_construct(&c); hp_gen_coeff(&c, ri); lp_integer_assign(hp_ring[ri], &c, &c); if (chance(10)) lp_integer_assign_int(lp_Z, &c, 0);
    sb_begin("up", "mulc"); sb_sp(); hp_ring_token(ri); sb_sp(); sb_upoly(A); sb_sp(); sb_mpz(&c); sb_arrow(); R = lp_upolynomial_mul_c(A, &c); sb_sp(); sb_upoly(R); sb_emit();
    lp_integer_destruct(&c); break; }
  case 5: { long n = rnd(4); if (lp_upolynomial_degree(A) > 3) n = rnd(3);
    sb_begin("up", "pow"); sb_sp(); hp_ring_token(ri); sb_sp(); sb_upoly(A); sb_sp(); sb_long(n); sb_arrow(); R = lp_upolynomial_pow(A, n); sb_sp(); sb_upoly(R); sb_emit(); break; }
  case 6: { sb_begin("up", "deriv"); sb_sp(); hp_ring_token(ri); sb_sp(); sb_upoly(A); sb_arrow(); R = lp_upolynomial_derivative(A); sb_sp(); sb_upoly(R); sb_emit(); break; }
  case 7: { lp_integer_t x, v; lp_integer_construct_from_int(lp_Z, &x, rnd_in(-6, 6)); lp_integer_construct(&v);
    if (chance(15)) gen_mpz(&x);
    sb_begin("up", "evalint"); sb_sp(); hp_ring_token(ri); sb_sp(); sb_upoly(A); sb_sp(); sb_mpz(&x); sb_arrow();
    /* the output may be the very object that holds the point */
    if (chance(30)) { lp_upolynomial_evaluate_at_integer(A, &x, &x); sb_sp(); sb_mpz(&x); } else { lp_upolynomial_evaluate_at_integer(A, &x, &v); sb_sp(); sb_mpz(&v); }
    sb_emit();
    lp_integer_destruct(&x); lp_integer_destruct(&v); break; }
  case 8: { if (ri != 0) break;
    lp_rational_t x, v; lp_rational_construct(&x); lp_rational_construct(&v); gen_mpq(&x);
    sb_begin("up", "evalrat"); sb_sp(); hp_ring_token(ri); sb_sp(); sb_upoly(A); sb_sp(); sb_mpq(&x); sb_arrow();
    lp_upolynomial_evaluate_at_rational(A, &x, &v); sb_sp(); sb_mpq(&v); sb_emit();
    if (chance(30)) { /* output aliasing the point */
      lp_rational_t y; lp_rational_construct_copy(&y, &x);
      sb_begin("up", "evalrat"); sb_sp(); hp_ring_token(ri); sb_sp(); sb_upoly(A); sb_sp(); sb_mpq(&x); sb_arrow();
      lp_upolynomial_evaluate_at_rational(A, &y, &y); sb_sp(); sb_mpq(&y); sb_emit();
      lp_rational_destruct(&y);
    }
    sb_begin("up", "sgnrat"); sb_sp(); hp_ring_token(ri); sb_sp(); sb_upoly(A); sb_sp(); sb_mpq(&x); sb_arrow();
    sb_sp(); sb_long(lp_upolynomial_sgn_at_rational(A, &x)); sb_emit();
    lp_rational_destruct(&x); lp_rational_destruct(&v); break; }
  case 9: { if (ri != 0) break;
    lp_dyadic_rational_t x, v; lp_dyadic_rational_construct_from_int(&x, rnd_in(-40, 40), rnd(5)); lp_dyadic_rational_construct(&v);
    lp_rational_t xq, vq; lp_rational_construct_from_dyadic(&xq, &x);
    sb_begin("up", "evalrat"); sb_sp(); hp_ring_token(ri); sb_sp(); sb_upoly(A); sb_sp(); sb_mpq(&xq); sb_arrow();
    if (chance(30)) { lp_upolynomial_evaluate_at_dyadic_rational(A, &x, &x); lp_rational_construct_from_dyadic(&vq, &x); }
    else { lp_upolynomial_evaluate_at_dyadic_rational(A, &x, &v); lp_rational_construct_from_dyadic(&vq, &v); }
    sb_sp(); sb_mpq(&vq); sb_emit();
    lp_rational_destruct(&xq); lp_rational_destruct(&vq); lp_dyadic_rational_destruct(&x); lp_dyadic_rational_destruct(&v); break; }
  case 10: { /* construction normalises into the ring: raw coefficient list */
    unsigned d = rnd(5); lp_integer_t c[6];
    sb_begin("up", "construct"); sb_sp(); hp_ring_token(ri); sb_sp();
    for (unsigned i = 0; i <= d; ++i) { lp_integer_construct(&c[i]); if (chance(75)) gen_mpz(&c[i]); if (chance(50)) lp_integer_assign_int(lp_Z, &c[i], rnd_in(-9, 9)); if (i) sb_str(","); sb_mpz(&c[i]); }
    sb_arrow();
    R = lp_upolynomial_construct(hp_ring[ri], d, c); sb_sp(); sb_upoly(R); sb_emit();
    for (unsigned i = 0; i <= d; ++i) lp_integer_destruct(&c[i]);
    break; }
  default: { /* change of ring: Z[x] -> Z_m[x] */
    if (ri == 0) break;
    lp_upolynomial_t* Z = hp_random_upoly(0, 5);
    sb_begin("up", "copyK"); sb_sp(); hp_ring_token(ri); sb_sp(); sb_upoly(Z); sb_arrow();
    R = lp_upolynomial_construct_copy_K(hp_ring[ri], Z); sb_sp(); sb_upoly(R); sb_emit();
    lp_upolynomial_delete(Z); break; }
  }
  if (R) lp_upolynomial_delete(R);
  lp_upolynomial_delete(A); lp_upolynomial_delete(B);
}

int main(int argc, char** argv) {
  uint64_t seed = argc > 1 ? strtoull(argv[1], 0, 10) : 1;
  long n = argc > 2 ? atol(argv[2]) : 1000;
  long only = argc > 3 ? atol(argv[3]) : -1;
  long start = argc > 4 ? atol(argv[4]) : 0;
  lpv_init(); hp_init();
  for (long i = 0; i < n; ++i) {
    if ((only >= 0 && i != only) || i < start) continue;
    lpv_begin_case(seed, i);
    if (chance(65)) poly_case(); else upoly_case();
  }
  hp_done();
  free(sb_buf);
  return 0;
}
