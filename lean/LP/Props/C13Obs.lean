/-
  C13 — observers of a feasibility set in normal form: a list in normal form is non-empty, increasing and pairwise separated
  (`nfs_nfw`, so the theorems about normal forms in `C13`, `C13Contains` apply to every result of `lp_feasibility_set_add`);
  emptiness (`C13_isEmpty`), the single-point test (`C13_isPoint`) and fullness (`C13_isFull`) agree with the denoted set.
-/
import LP.Props.C13UnionNF

set_option linter.unusedSectionVars false

namespace LP

variable {α : Type*} [Field α] [LinearOrder α] [IsStrictOrderedRing α]

namespace FSet
open VI

/-- a well-formed interval contains a point -/
theorem wf_nonempty (I : VI) (h : I.WF) : ∃ x : α, I.Mem x := by
  unfold WF at h
  by_cases hp : I.isPoint = true
  · rw [if_pos hp] at h
    obtain ⟨⟨q, hq⟩, h1, h2⟩ := h
    refine ⟨(q : α), ?_⟩
    simp [Mem, lower, upper, hp, hq, h1, h2, lowerOK, upperOK]
  · rw [if_neg hp] at h
    have hp' : I.isPoint = false := by simpa using hp
    obtain ⟨hab, hna, hnb, ha1, hb1⟩ := h
    unfold Mem
    simp only [lower, upper, hp', Bool.false_eq_true, if_false]
    rcases hA : I.a with _ | a | _
    · rcases hB : I.b with _ | b | _
      · exact absurd hB hb1
      · refine ⟨(b : α) - 1, trivial, ?_⟩
        cases I.bOpen <;> simp only [upperOK, Bool.false_eq_true, if_false, if_true] <;> linarith
      · exact ⟨0, trivial, trivial⟩
    · rcases hB : I.b with _ | b | _
      · exact absurd hB hb1
      · rw [hA, hB, EP.cmp_fin, cmpQ_lt] at hab
        have hab' : (a : α) < (b : α) := by exact_mod_cast hab
        refine ⟨((a : α) + (b : α)) / 2, ?_, ?_⟩
        · cases I.aOpen <;> simp only [lowerOK, Bool.false_eq_true, if_false, if_true] <;> linarith
        · cases I.bOpen <;> simp only [upperOK, Bool.false_eq_true, if_false, if_true] <;> linarith
      · refine ⟨(a : α) + 1, ?_, trivial⟩
        cases I.aOpen <;> simp only [lowerOK, Bool.false_eq_true, if_false, if_true] <;> linarith
    · exact absurd hA ha1

/-- consecutive gaps separate every earlier interval from every later one -/
theorem nfs_pairwise_sep : ∀ (s : List VI), NFs s → s.Pairwise (Sep α) := by
  intro s
  induction s with
  | nil => intro _; exact List.Pairwise.nil
  | cons I rest ih =>
    intro hn
    obtain ⟨hw, hc⟩ := hn
    have hrest : NFs rest := ⟨fun J hJ => hw J (List.mem_cons_of_mem _ hJ), hc.tail⟩
    have hpr := ih hrest
    refine List.pairwise_cons.2 ⟨?_, hpr⟩
    cases rest with
    | nil => intro J hJ; simp at hJ
    | cons J1 rest' =>
      have hg : Gap I J1 := (List.isChain_cons_cons.1 hc).1
      have h1 : Sep α I J1 := fun x y hx hy => gap_sep I J1 hg x y hx.2 hy.1
      intro J hJ
      rcases List.mem_cons.1 hJ with rfl | hJ
      · exact h1
      · have h2 : Sep α J1 J := (List.pairwise_cons.1 hpr).1 J hJ
        obtain ⟨m, hm⟩ := wf_nonempty (α := α) J1 (hw J1 (by simp))
        intro x y hx hy
        exact lt_trans (h1 x m hx hm) (h2 m y hm hy)

/-- the normal form produced by the union is the normal form the sweeps and the binary search assume -/
theorem nfs_nfw (s : List VI) (hn : NFs s) : NFw α s :=
  ⟨fun I hI => wf_nonempty I (hn.1 I hI), nfs_pairwise_sep s hn⟩

/-- **`lp_feasibility_set_is_empty`** -/
theorem C13_isEmpty (s : List VI) (hw : ∀ I ∈ s, I.WF) : s.isEmpty = true ↔ ∀ x : α, ¬ SetMem α s x := by
  constructor
  · intro h x
    rw [List.isEmpty_iff.1 h, setMem_nil]; exact id
  · intro h
    cases s with
    | nil => rfl
    | cons I rest =>
      obtain ⟨x, hx⟩ := wf_nonempty (α := α) I (hw I (by simp))
      exact absurd ⟨I, by simp, hx⟩ (h x)

/-- a well-formed interval that is not a point contains two different numbers -/
theorem wf_two_points (I : VI) (h : I.WF) (hp : I.isPoint = false) : ∃ x y : α, x < y ∧ I.Mem x ∧ I.Mem y := by
  unfold WF at h
  rw [if_neg (by simp [hp])] at h
  obtain ⟨hab, hna, hnb, ha1, hb1⟩ := h
  unfold Mem
  simp only [lower, upper, hp, Bool.false_eq_true, if_false]
  rcases hA : I.a with _ | a | _
  · rcases hB : I.b with _ | b | _
    · exact absurd hB hb1
    · refine ⟨(b : α) - 2, (b : α) - 1, by linarith, ⟨trivial, ?_⟩, ⟨trivial, ?_⟩⟩ <;>
        cases I.bOpen <;> simp only [upperOK, Bool.false_eq_true, if_false, if_true] <;> linarith
    · exact ⟨0, 1, by norm_num, ⟨trivial, trivial⟩, ⟨trivial, trivial⟩⟩
  · rcases hB : I.b with _ | b | _
    · exact absurd hB hb1
    · rw [hA, hB, EP.cmp_fin, cmpQ_lt] at hab
      have hab' : (a : α) < (b : α) := by exact_mod_cast hab
      refine ⟨((a : α) * 2 + (b : α)) / 3, ((a : α) + (b : α) * 2) / 3, by linarith, ⟨?_, ?_⟩, ⟨?_, ?_⟩⟩
      · cases I.aOpen <;> simp only [lowerOK, Bool.false_eq_true, if_false, if_true] <;> linarith
      · cases I.bOpen <;> simp only [upperOK, Bool.false_eq_true, if_false, if_true] <;> linarith
      · cases I.aOpen <;> simp only [lowerOK, Bool.false_eq_true, if_false, if_true] <;> linarith
      · cases I.bOpen <;> simp only [upperOK, Bool.false_eq_true, if_false, if_true] <;> linarith
    · refine ⟨(a : α) + 1, (a : α) + 2, by linarith, ⟨?_, trivial⟩, ⟨?_, trivial⟩⟩ <;>
        cases I.aOpen <;> simp only [lowerOK, Bool.false_eq_true, if_false, if_true] <;> linarith
  · exact absurd hA ha1

/-- **`lp_feasibility_set_is_point`**: true exactly when the denoted set is a single number -/
theorem C13_isPoint (s : List VI) (hn : NFs s) :
    FSet.isPoint s = true ↔ ∃ p : α, ∀ x : α, SetMem α s x ↔ x = p := by
  constructor
  · intro h
    unfold FSet.isPoint at h
    match s, h, hn with
    | [I], h, hn =>
      have hw := hn.1 I (by simp)
      unfold WF at hw
      rw [if_pos h] at hw
      obtain ⟨⟨q, hq⟩, h1, h2⟩ := hw
      refine ⟨(q : α), fun x => ?_⟩
      simp only [SetMem, List.mem_singleton, exists_eq_left, Mem, lower, upper, h, if_true, hq, h1, h2, lowerOK, upperOK,
        Bool.false_eq_true, if_false]
      exact ⟨fun hh => le_antisymm hh.2 hh.1, fun hh => by rw [hh]; exact ⟨le_refl _, le_refl _⟩⟩
  · rintro ⟨p, hp⟩
    have hsep := nfs_pairwise_sep (α := α) s hn
    cases s with
    | nil => exact absurd ((hp p).2 rfl) (by rw [setMem_nil]; exact id)
    | cons I rest =>
      cases rest with
      | nil =>
        unfold FSet.isPoint
        by_contra hnp
        have hnp' : I.isPoint = false := by simpa using hnp
        obtain ⟨x, y, hxy, hx, hy⟩ := wf_two_points (α := α) I (hn.1 I (by simp)) hnp'
        have e1 := (hp x).1 ⟨I, by simp, hx⟩
        have e2 := (hp y).1 ⟨I, by simp, hy⟩
        rw [e1, e2] at hxy
        exact lt_irrefl _ hxy
      | cons J rest' =>
        obtain ⟨x, hx⟩ := wf_nonempty (α := α) I (hn.1 I (by simp))
        obtain ⟨y, hy⟩ := wf_nonempty (α := α) J (hn.1 J (by simp))
        have hlt : x < y := (List.pairwise_cons.1 hsep).1 J (by simp) x y hx hy
        have e1 := (hp x).1 ⟨I, by simp, hx⟩
        have e2 := (hp y).1 ⟨J, by simp, hy⟩
        rw [e1, e2] at hlt
        exact absurd hlt (lt_irrefl _)

/-- **`lp_feasibility_set_is_full`**, the direction the callers rely on: a set reported full contains every number -/
theorem C13_isFull_sound (s : List VI) (h : FSet.isFull s = true) (x : α) : SetMem α s x := by
  unfold FSet.isFull at h
  match s, h with
  | [I], h =>
    simp only [Bool.and_eq_true, decide_eq_true_eq] at h
    exact ⟨I, List.mem_singleton.2 rfl, by unfold Mem; rw [h.1, h.2]; exact ⟨trivial, trivial⟩⟩

/-- … and conversely: a set in normal form that contains every number is the single interval (−∞, +∞), which the test accepts -/
theorem C13_isFull (s : List VI) (hn : NFs s) : FSet.isFull s = true ↔ ∀ x : α, SetMem α s x := by
  refine ⟨fun h x => C13_isFull_sound s h x, fun hall => ?_⟩
  have hsep := nfs_pairwise_sep (α := α) s hn
  cases s with
  | nil => exact absurd (hall 0) (by rw [setMem_nil]; exact id)
  | cons I rest =>
    have hwI := hn.1 I (by simp)
    obtain ⟨m, hm⟩ := wf_nonempty (α := α) I hwI
    have hsepI : ∀ J ∈ rest, Sep α I J := (List.pairwise_cons.1 hsep).1
    -- the first interval starts at −∞
    have hlow : I.lower = .ninf := by
      rcases hA : I.lower with _ | a | _
      · rfl
      · exfalso
        obtain ⟨J, hJ, hx⟩ := hall ((a : α) - 1)
        rcases List.mem_cons.1 hJ with rfl | hJ
        · have := hx.1; rw [hA] at this
          simp only [lowerOK] at this; split_ifs at this <;> linarith
        · have h1 := hsepI J hJ m _ hm hx
          have := hm.1; rw [hA] at this
          simp only [lowerOK] at this; split_ifs at this <;> linarith
      · exact absurd hA (wf_lower_facts I hwI).1
    -- there is no second interval: the gap after the first one would not be covered
    have hrest : rest = [] := by
      cases rest with
      | nil => rfl
      | cons J rest' =>
        exfalso
        have hwJ := hn.1 J (by simp)
        have hg : Gap I J := (List.isChain_cons_cons.1 hn.2).1
        obtain ⟨mj, hmj⟩ := wf_nonempty (α := α) J hwJ
        have hsepJ : ∀ K ∈ rest', Sep α J K := (List.pairwise_cons.1 (List.pairwise_cons.1 hsep).2).1
        -- a number in the gap
        have hex : ∃ x : α, ¬ upperOK I.upper I.bOpen x ∧ ¬ lowerOK J.lower J.aOpen x := by
          rcases hU : I.upper with _ | u | _
          · exact absurd hU (wf_upper_facts I hwI).1
          · rcases hL : J.lower with _ | l | _
            · rcases hg with hg | ⟨hg, _, _⟩ <;> rw [hU, hL] at hg <;> simp [EP.cmp] at hg
            · rcases hg with hg | ⟨hg, ho1, ho2⟩
              · rw [hU, hL, EP.cmp_fin, cmpQ_lt] at hg
                have hul : (u : α) < (l : α) := by exact_mod_cast hg
                refine ⟨((u : α) + (l : α)) / 2, ?_, ?_⟩
                · simp only [upperOK]; split_ifs <;> simp only [not_le, not_lt] <;> linarith
                · simp only [lowerOK]; split_ifs <;> simp only [not_le, not_lt] <;> linarith
              · rw [hU, hL, EP.cmp_fin, cmpQ_eq] at hg
                subst hg
                exact ⟨(u : α), by simp [upperOK, ho1], by simp [lowerOK, ho2]⟩
            · exact absurd hL (wf_lower_facts J hwJ).1
          · exfalso
            rcases hg with hg | ⟨hg, _, _⟩
            · rw [hU] at hg; cases hL : J.lower <;> rw [hL] at hg <;> simp [EP.cmp] at hg
            · rw [hU] at hg
              exact (wf_lower_facts J hwJ).1 ((EP.cmp_eq_zero _ _).1 hg).symm
        obtain ⟨x, hx1, hx2⟩ := hex
        obtain ⟨K, hK, hxK⟩ := hall x
        rcases List.mem_cons.1 hK with rfl | hK
        · exact hx1 hxK.2
        · rcases List.mem_cons.1 hK with rfl | hK
          · exact hx2 hxK.1
          · -- a later interval lies above all of J, hence above x
            have h1 := hsepJ K hK mj x hmj hxK
            exact hx2 (lowerOK_mono _ _ mj x hmj.1 h1.le)
    subst hrest
    -- the only interval ends at +∞
    have hup : I.upper = .pinf := by
      rcases hB : I.upper with _ | b | _
      · exact absurd hB (wf_upper_facts I hwI).1
      · exfalso
        obtain ⟨J, hJ, hx⟩ := hall ((b : α) + 1)
        have hJI : J = I := by simpa using hJ
        subst hJI
        have := hx.2; rw [hB] at this
        simp only [upperOK] at this; split_ifs at this <;> linarith
      · rfl
    unfold FSet.isFull
    simp [hlow, hup]

/-! non-vacuity -/
example : FSet.isFull [VI.full] = true ∧ FSet.isPoint [VI.point (.fin 3)] = true ∧ FSet.isPoint [VI.full] = false := by decide

end FSet
end LP
