/-
  Hand-written side of the translator tie for `lp_interval_cmp_with_intersect`: the model's classification as a function of
  the four bound comparisons and the strictness flags (`cwi_class` in Props/GenTables shows it is `(cmpWithIntersect I1 I2).1`),
  and the numbering of `lp_interval_cmp_t`.  Core Lean only (also imported by the failing-input search Gen/TableDiff.lean).
-/
import LP.Model.FSet
namespace LP
namespace Gen

def icmpCode : VI.ICmp → Int
  | .ltNo => 0 | .ltWith => 1 | .ltWithI1 => 2 | .leqWithI2 => 3 | .eq => 4 | .geqWithI1 => 5 | .gtWithI2 => 6 | .gtWith => 7 | .gtNo => 8

/-- the classification of the model as a function of the four comparisons and the flags -/
def cwiClass (cu cl x z : Int) (a1 b1 a2 b2 : Bool) : VI.ICmp :=
  if cu = 0 ∧ cl = 0 then .eq
  else if cu < 0 ∧ cl > 0 then .ltWithI1
  else if cu > 0 ∧ cl < 0 then .gtWithI2
  else if cu = 0 ∧ cl > 0 then .geqWithI1
  else if cu = 0 ∧ cl < 0 then .leqWithI2
  else if cl = 0 ∧ cu > 0 then .gtWithI2
  else if cl = 0 ∧ cu < 0 then .ltWithI1
  else if cu < 0 then
    (if x = 0 ∧ (b1 = true ∨ a2 = true) then .ltNo else if x = 0 then .ltWith else if x < 0 then .ltNo else .ltWith)
  else
    (if z = 0 ∧ (a1 = true ∨ b2 = true) then .gtNo else if z = 0 then .gtWith else if z < 0 then .gtWith else .gtNo)


end Gen
end LP
