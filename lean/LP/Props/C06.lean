/-
  C06 — real root counting and isolation of univariate integer polynomials is exact.

  The C results are judged on every run by the verified root counter (`LP.Model.RootCount`, `LP.Model.Alg`).
  Proved here, for every polynomial over ℚ, every interval and every output (no bound on degree or size; the
  fuel only limits when the counter answers at all):
  * `C06_count`: a count produced by the model is the length of a strictly increasing list that enumerates
    exactly the real roots in the interval, each end honoured as open or closed; `C06_count_all` on ℝ;
  * `C06_isolate_accept`: an isolation output accepted by the checker (every item a valid isolating
    representation, every item a root of the input, consecutive items strictly increasing, as many items as
    distinct real roots) enumerates every real root exactly once, in increasing order.
  `_partial`: the Sturm clause is decided per interval (V(a) − V(b) against the proved count on a grid around
  the roots and at ±∞); Sturm's theorem itself (for all a < b at once) is not formalised — Mathlib has none.
-/
import LP.Props.Alg

namespace LP
open QPoly

theorem C06_count (p : QPoly) (a : ℚ) (ao : Bool) (b : ℚ) (bo : Bool) (k : ℕ)
    (h : countRootsIn p a ao b bo = some k) :
    ∃ rs : List ℝ, rs.length = k ∧ Enumerates rs (fun x => InI a ao b bo x ∧ evalR p x = 0) :=
  countRootsIn_sound p a ao b bo k h

theorem C06_count_all (p : QPoly) (L : List Cell) (h : realRoots p = some L) :
    ∃ rs : List ℝ, rs.length = L.length ∧ Enumerates rs (fun x => evalR p x = 0) :=
  realRoots_sound p L h

/-- a certified "is a root of f" -/
theorem isRootOf_sound (f : QPoly) (a : Alg) (x : ℝ) (hv : a.Valid) (hx : a.Den x)
    (h : Alg.isRootOf f a = some true) : evalR f x = 0 := by
  cases a with
  | rat q =>
    simp only [Alg.isRootOf, Option.some.injEq, beq_iff_eq] at h
    have : x = (q : ℝ) := hx
    rw [this, ← eval_cast, h]; simp
  | root g l u =>
    rw [Alg.isRootOf] at h
    cases hg : Alg.gcdCert g f with
    | none => rw [hg] at h; simp at h
    | some hh =>
      rw [hg] at h
      simp only at h
      split_ifs at h with hl
      · simp at h
      cases hn : Alg.countOpen hh l u with
      | none => rw [hn] at h; simp at h
      | some n =>
        rw [hn] at h
        simp only [Option.map_some, Option.some.injEq, decide_eq_true_eq] at h
        obtain ⟨rs, hlen, _, hmem⟩ := Alg.countOpen_sound hh l u n hn
        obtain ⟨z, hz⟩ : ∃ z, z ∈ rs := by
          cases rs with
          | nil => simp at hlen; omega
          | cons z _ => exact ⟨z, List.mem_cons_self⟩
        obtain ⟨hz1, hz2, hz0⟩ := (hmem z).1 hz
        obtain ⟨hzg, hzf⟩ := (Alg.gcdCert_sound g f hh hg z).1 hz0
        have : z = x := hv.unique ⟨hz1, hz2, hzg⟩ hx
        rw [← this]; exact hzf

/-- **isolation**: what the checker accepts enumerates every real root exactly once, in increasing order -/
theorem C06_isolate_accept (f : QPoly) (L : List Cell) (as : List Alg) (xs : List ℝ)
    (hL : realRoots f = some L)
    (hden : List.Forall₂ (fun a x => a.Valid ∧ a.Den x) as xs)
    (hlen : as.length = L.length)
    (hroot : ∀ a ∈ as, Alg.isRootOf f a = some true)
    (hsorted : xs.IsChain (· < ·)) :
    Enumerates xs (fun x => evalR f x = 0) := by
  obtain ⟨rs, hrl, hrs⟩ := realRoots_sound f L hL
  apply enumerates_of_length _ rs xs hrs
  · exact List.isChain_iff_pairwise.1 hsorted
  · intro x hx
    -- find the representation of x
    have : ∀ (as : List Alg) (xs : List ℝ), List.Forall₂ (fun a x => a.Valid ∧ a.Den x) as xs →
        (∀ a ∈ as, Alg.isRootOf f a = some true) → ∀ x ∈ xs, evalR f x = 0 := by
      intro as xs h
      induction h with
      | nil => intro _ x hx; simp at hx
      | cons hax _ ih =>
        intro hr x hx
        rw [List.mem_cons] at hx
        rcases hx with rfl | hx
        · exact isRootOf_sound f _ _ hax.1 hax.2 (hr _ List.mem_cons_self)
        · exact ih (fun a ha => hr a (List.mem_cons_of_mem _ ha)) x hx
    exact this as xs hden hroot x hx
  · rw [← hden.length_eq, hlen, hrl]

/-- consecutive comparisons answering "less" give a strictly increasing chain -/
theorem chain_of_cmp : ∀ (as : List Alg) (xs : List ℝ), List.Forall₂ (fun a x => a.Valid ∧ a.Den x) as xs →
    (∀ p ∈ as.zip as.tail, Alg.cmp p.1 p.2 = some (-1)) → xs.IsChain (· < ·) := by
  intro as xs h
  induction h with
  | nil => intro _; exact List.isChain_nil
  | @cons a x as xs hax htl ih =>
    intro hc
    cases htl with
    | nil => exact List.isChain_singleton _
    | @cons b y as' xs' hby htl' =>
      have hc1 : Alg.cmp a b = some (-1) := hc (a, b) (by simp)
      have := Alg.cmp_sound a b (-1) x y hax.1 hax.2 hby.1 hby.2 hc1
      have hlt : x < y := by
        rcases this with ⟨_, h⟩ | ⟨h, _⟩ | ⟨h, _⟩
        · exact h
        · simp at h
        · simp at h
      refine List.isChain_cons_cons.2 ⟨hlt, ih ?_⟩
      intro p hp
      apply hc p
      simp only [List.tail_cons, List.zip_cons_cons, List.mem_cons] at hp ⊢
      right; exact hp

/-! non-vacuity: on every run the driver evaluates `realRoots`, `countRootsIn`, `Alg.valid`, `Alg.cmp` on all
    generated inputs; the evidence file counts how often they answer `none` (skipped) — the hypotheses of the
    theorems above are met by every case that is not skipped. -/
end LP
