/* C13 harness: real feasibility sets (normal-form interval lists) and interval comparison.
 * A pool of values (integers, rationals, dyadics, algebraic numbers, +-inf) is sorted; the real line is
 * cut into atoms (-inf,v1), {v1}, (v1,v2), ..., (vk,+inf); every subset of atoms has exactly one
 * normal-form representation, which is what the library must produce and consume.
 * Exhaustive: all pairs of subsets for the 3-value pool {0,1,2} (thorough: {0,1,2,3}).
 * Random: pools mixing all value kinds, algebraic end points printed as order-isomorphic surrogates.
 */
#include "common.h"
#include <poly.h>
#include <integer.h>
#include <rational.h>
#include <dyadic_rational.h>
#include <value.h>
#include <interval.h>
#include <algebraic_number.h>
#include <upolynomial.h>
#include <feasibility_set.h>
#include "polynomial/feasibility_set.h"
#include <limits.h>

#define MAXV 16
/* boxed: blo/bhi is a refined isolating interval of an algebraic v (free of integers and of other pool values) inside which the
   surrogate lives; v itself may carry the unrefined interval the root isolation produced (end points at integers) */
typedef struct { lp_value_t v; char name[80]; int boxed; lp_dyadic_rational_t blo, bhi; } pval;

/* print a value through the pool (surrogates for algebraic numbers) */
static const pval* cur_pool; static int cur_npool;
static void sb_value(const lp_value_t* v) {
  if (v->type == LP_VALUE_MINUS_INFINITY) { sb_str("-inf"); return; }
  if (v->type == LP_VALUE_PLUS_INFINITY) { sb_str("+inf"); return; }
  for (int i = 0; i < cur_npool; ++i) if (lp_value_cmp(&cur_pool[i].v, v) == 0) { sb_str(cur_pool[i].name); return; }
  if (v->type == LP_VALUE_INTEGER) { sb_mpz(&v->value.z); return; }
  if (v->type == LP_VALUE_RATIONAL) { sb_mpq(&v->value.q); return; }
  if (v->type == LP_VALUE_DYADIC_RATIONAL) { lp_rational_t q; lp_rational_construct_from_dyadic(&q, &v->value.dy_q); sb_mpq(&q); lp_rational_destruct(&q); return; }
  sb_str("alg?");
}
static void sb_vi(const lp_interval_t* I) {
  if (I->is_point) { sb_str("["); sb_value(&I->a); sb_str("]"); return; }
  sb_str(I->a_open ? "(" : "["); sb_value(&I->a); sb_str(","); sb_value(&I->b); sb_str(I->b_open ? ")" : "]");
}
static void sb_fset(const lp_feasibility_set_t* s) {
  if (s->size == 0) { sb_str("{}"); return; }
  sb_str("{");
  for (size_t i = 0; i < s->size; ++i) { if (i) sb_str(";"); sb_vi(s->intervals + i); }
  sb_str("}");
}

/* set from atom mask over sorted values vals[0..k-1]; atoms: 2k+1, atom 2i = open gap before v_i, 2i+1 = {v_i} */
static lp_feasibility_set_t* set_from_mask(const pval* vals, int k, unsigned long mask) {
  int natoms = 2 * k + 1;
  lp_interval_t ivs[2 * MAXV + 2]; size_t n = 0;
  lp_value_t ninf, pinf; lp_value_construct(&ninf, LP_VALUE_MINUS_INFINITY, 0); lp_value_construct(&pinf, LP_VALUE_PLUS_INFINITY, 0);
  int i = 0;
  while (i < natoms) {
    if (!((mask >> i) & 1)) { ++i; continue; }
    int j = i; while (j + 1 < natoms && ((mask >> (j + 1)) & 1)) ++j;
    /* run of atoms i..j */
    const lp_value_t* a; int ao; const lp_value_t* b; int bo;
    if (i % 2 == 1) { a = &vals[i / 2].v; ao = 0; } else { a = i == 0 ? &ninf : &vals[i / 2 - 1].v; ao = 1; }
    if (j % 2 == 1) { b = &vals[j / 2].v; bo = 0; } else { b = j == natoms - 1 ? &pinf : &vals[j / 2].v; bo = 1; }
    lp_interval_construct(&ivs[n++], a, ao, b, bo);
    i = j + 1;
  }
  lp_feasibility_set_t* s = lp_feasibility_set_new_internal(n);
  if (n) memcpy(s->intervals, ivs, n * sizeof(lp_interval_t));
  s->size = n;
  lp_value_destruct(&ninf); lp_value_destruct(&pinf);
  return s;
}

static const char* FST[] = { "S1", "S2", "NEW", "EMPTY" };
static const char* ICMP[] = { "ltNo", "ltWith", "ltWithI1", "leqWithI2", "eq", "geqWithI1", "gtWithI2", "gtWith", "gtNo" };

static void observe_pair(const lp_feasibility_set_t* a, const lp_feasibility_set_t* b) {
  lp_feasibility_set_intersect_status_t st;
  sb_begin("fset", "intersect"); sb_sp(); sb_fset(a); sb_sp(); sb_fset(b); sb_arrow();
  lp_feasibility_set_t* r = lp_feasibility_set_intersect_with_status(a, b, &st);
  sb_sp(); sb_fset(r); sb_sp(); sb_str(FST[st]); sb_emit();
  lp_feasibility_set_delete(r);
  /* the status-free entry point must return the same set */
  sb_begin("fset", "intersect"); sb_sp(); sb_fset(a); sb_sp(); sb_fset(b); sb_arrow();
  r = lp_feasibility_set_intersect(a, b);
  sb_sp(); sb_fset(r); sb_sp(); sb_str(FST[st]); sb_emit();
  lp_feasibility_set_delete(r);
  sb_begin("fset", "add"); sb_sp(); sb_fset(a); sb_sp(); sb_fset(b); sb_arrow();
  r = lp_feasibility_set_new_copy(a); lp_feasibility_set_add(r, b);
  sb_sp(); sb_fset(r); sb_emit();
  lp_feasibility_set_delete(r);
  /* interval comparison on the first intervals */
  if (a->size && b->size) {
    const lp_interval_t* I1 = a->intervals + rnd(a->size); const lp_interval_t* I2 = b->intervals + rnd(b->size);
    lp_interval_t P; lp_interval_construct_zero(&P);
    sb_begin("fset", "icmp"); sb_sp(); sb_vi(I1); sb_sp(); sb_vi(I2); sb_arrow();
    lp_interval_cmp_t c = lp_interval_cmp_with_intersect(I1, I2, &P);
    sb_sp(); sb_str(ICMP[c]); sb_sp();
    if (c == LP_INTERVAL_CMP_LT_NO_INTERSECT || c == LP_INTERVAL_CMP_GT_NO_INTERSECT) sb_str("none"); else sb_vi(&P);
    sb_emit();
    /* lp_interval_cmp: the same classification without the intersection */
    sb_begin("fset", "icmp"); sb_sp(); sb_vi(I1); sb_sp(); sb_vi(I2); sb_arrow();
    lp_interval_cmp_t c2 = lp_interval_cmp(I1, I2);
    sb_sp(); sb_str(ICMP[c2]); sb_sp();
    if (c2 == LP_INTERVAL_CMP_LT_NO_INTERSECT || c2 == LP_INTERVAL_CMP_GT_NO_INTERSECT || c2 != c) sb_str("none"); else sb_vi(&P);
    sb_emit();
    lp_interval_destruct(&P);
  }
}

static void observe_pick(const lp_feasibility_set_t* a) {
  lp_value_t v; lp_value_construct_none(&v);
  sb_begin("fset", "pick"); sb_sp(); sb_fset(a); sb_arrow();
  lp_feasibility_set_pick_value(a, &v);
  /* report: membership as answered by the library for its own pick, integrality, and the value when rational */
  sb_sp(); sb_long(lp_feasibility_set_contains(a, &v)); sb_sp(); sb_long(lp_value_is_integer(&v)); sb_sp();
  { int has_alg = 0; for (int i = 0; i < cur_npool; ++i) if (cur_pool[i].v.type == LP_VALUE_ALGEBRAIC) has_alg = 1;
    sb_long(has_alg); sb_sp(); }
  if (lp_value_is_rational(&v)) { lp_rational_t q; lp_rational_construct(&q); lp_value_get_rational(&v, &q); sb_mpq(&q); lp_rational_destruct(&q); }
  else sb_str("irrational");
  sb_emit();
  lp_value_destruct(&v);
}

static void observe_single(const lp_feasibility_set_t* a, const pval* probes, int nprobes) {
  sb_begin("fset", "isempty"); sb_sp(); sb_fset(a); sb_arrow(); sb_sp(); sb_long(lp_feasibility_set_is_empty(a)); sb_emit();
  sb_begin("fset", "isfull"); sb_sp(); sb_fset(a); sb_arrow(); sb_sp(); sb_long(lp_feasibility_set_is_full(a)); sb_emit();
  sb_begin("fset", "ispoint"); sb_sp(); sb_fset(a); sb_arrow(); sb_sp(); sb_long(lp_feasibility_set_is_point(a)); sb_emit();
  sb_begin("fset", "ispointint"); sb_sp(); sb_fset(a); sb_arrow(); sb_sp(); sb_long(lp_feasibility_set_is_point_int(a)); sb_emit();
  sb_begin("fset", "containsint"); sb_sp(); sb_fset(a); sb_arrow(); sb_sp(); sb_long(lp_feasibility_set_contains_int(a)); sb_emit();
  sb_begin("fset", "countint"); sb_sp(); sb_fset(a); sb_arrow();
  { long c = lp_feasibility_set_count_int(a); sb_sp(); if (c == LONG_MAX) sb_str("max"); else sb_long(c); } sb_emit();
  for (int i = 0; i < nprobes; ++i) {
    sb_begin("fset", "contains"); sb_sp(); sb_fset(a); sb_sp(); sb_value(&probes[i].v); sb_arrow();
    sb_sp(); sb_long(lp_feasibility_set_contains(a, &probes[i].v)); sb_emit();
  }
  if (a->size) {
    lp_interval_t I; lp_interval_construct_zero(&I);
    sb_begin("fset", "tointerval"); sb_sp(); sb_fset(a); sb_arrow();
    lp_feasibility_set_to_interval(a, &I); sb_sp(); sb_vi(&I); sb_emit();
    lp_interval_destruct(&I);
    observe_pick(a);
    /* every interval on its own: a neighbour holding an integer must not hide a poor pick from this one */
    if (a->size > 1) for (size_t i = 0; i < a->size; ++i) {
      lp_feasibility_set_t* one = lp_feasibility_set_new_internal(1);
      lp_interval_construct_copy(one->intervals, a->intervals + i); one->size = 1;
      observe_pick(one);
      sb_begin("fset", "containsint"); sb_sp(); sb_fset(one); sb_arrow(); sb_sp(); sb_long(lp_feasibility_set_contains_int(one)); sb_emit();
      sb_begin("fset", "countint"); sb_sp(); sb_fset(one); sb_arrow();
      { long c = lp_feasibility_set_count_int(one); sb_sp(); if (c == LONG_MAX) sb_str("max"); else sb_long(c); } sb_emit();
      lp_feasibility_set_delete(one);
    }
  }
}

/* ---------- pools ---------- */
static void pv_int(pval* p, long z) { lp_integer_t i; lp_integer_construct_from_int(lp_Z, &i, z); lp_value_construct(&p->v, LP_VALUE_INTEGER, &i); lp_integer_destruct(&i); snprintf(p->name, sizeof p->name, "%ld", z); p->boxed = 0; }
static void pv_rat(pval* p, long n, unsigned long d) {
  lp_rational_t q; lp_rational_construct_from_int(&q, n, d); lp_value_construct(&p->v, LP_VALUE_RATIONAL, &q);
  sb_reset(); sb_mpq(&q); snprintf(p->name, sizeof p->name, "%s", sb_buf); lp_rational_destruct(&q); p->boxed = 0; }
static void pv_dy(pval* p, long n, unsigned long e) {
  lp_dyadic_rational_t q; lp_dyadic_rational_construct_from_int(&q, n, e); lp_value_construct(&p->v, LP_VALUE_DYADIC_RATIONAL, &q);
  lp_rational_t r; lp_rational_construct_from_dyadic(&r, &q); sb_reset(); sb_mpq(&r); snprintf(p->name, sizeof p->name, "%s", sb_buf);
  lp_rational_destruct(&r); lp_dyadic_rational_destruct(&q); p->boxed = 0; }

/* algebraic numbers: all real roots of a few polynomials */
#define NAPOLY 7
static const int polys[NAPOLY][5] = { { -2, 0, 1, 0, 0 }, { -3, 0, 1, 0, 0 }, { -1, -1, 1, 0, 0 }, { -2, 0, 0, 1, 0 }, { 1, 0, -4, 0, 1 }, { -5, 0, 1, 0, 0 }, { -10, 0, 1, 0, 0 } };
static const int degs[NAPOLY] = { 2, 2, 2, 3, 4, 2, 2 };
/* root i of polynomial k as the root isolation returns it (unrefined isolating interval) */
static void fresh_alg(int k, int i, lp_value_t* out) {
  lp_upolynomial_t* f = lp_upolynomial_construct_from_int(lp_Z, degs[k], polys[k]);
  lp_algebraic_number_t roots[8]; size_t nr = 0;
  lp_upolynomial_roots_isolate(f, roots, &nr);
  lp_value_construct(out, LP_VALUE_ALGEBRAIC, &roots[i]);
  for (size_t j = 0; j < nr; ++j) lp_algebraic_number_destruct(&roots[j]);
  lp_upolynomial_delete(f);
}
#define NALG 16
static lp_value_t alg_vals[NALG]; static int alg_poly[NALG], alg_root[NALG]; static int nalg = 0;
static void build_algebraic(void) {
  for (int k = 0; k < NAPOLY && nalg < NALG; ++k) {
    lp_upolynomial_t* f = lp_upolynomial_construct_from_int(lp_Z, degs[k], polys[k]);
    lp_algebraic_number_t roots[8]; size_t nr = 0;
    lp_upolynomial_roots_isolate(f, roots, &nr);
    for (size_t i = 0; i < nr; ++i) {
      if (nalg < NALG) { lp_value_construct(&alg_vals[nalg], LP_VALUE_ALGEBRAIC, &roots[i]); alg_poly[nalg] = k; alg_root[nalg] = (int)i; nalg++; }
      lp_algebraic_number_destruct(&roots[i]);
    }
    lp_upolynomial_delete(f);
  }
}
/* surrogate of an irrational algebraic value: a dyadic inside its isolating interval, after refining until no
 * other pool value and no integer lies in the closed isolating interval */
static const lp_dyadic_rational_t* box_lo(const pval* p) { return p->boxed ? &p->blo : &p->v.value.a.I.a; }
static const lp_dyadic_rational_t* box_hi(const pval* p) { return p->boxed ? &p->bhi : &p->v.value.a.I.b; }
static int pv_alg(pval* p, int ai, const pval* others, int nothers) {
  const lp_value_t* av = &alg_vals[ai];
  p->boxed = 0;
  lp_value_construct_copy(&p->v, av);
  lp_algebraic_number_t* a = &p->v.value.a;
  for (int it = 0; it < 200; ++it) {
    if (a->I.is_point) return 0;
    int ok = lp_dyadic_interval_size(&a->I) <= -8;
    lp_value_t l, u; lp_value_construct(&l, LP_VALUE_DYADIC_RATIONAL, &a->I.a); lp_value_construct(&u, LP_VALUE_DYADIC_RATIONAL, &a->I.b);
    for (int j = 0; ok && j < nothers; ++j) {
      if (others[j].v.type == LP_VALUE_ALGEBRAIC && lp_value_cmp(&others[j].v, av) == 0) { ok = -1; break; }
      if (others[j].v.type == LP_VALUE_ALGEBRAIC) {
        const lp_algebraic_number_t* o = &others[j].v.value.a;
        if (!o->I.is_point && !(lp_dyadic_rational_cmp(box_hi(&others[j]), &a->I.a) < 0 || lp_dyadic_rational_cmp(&a->I.b, box_lo(&others[j])) < 0)) ok = 0;
      } else if (lp_value_cmp(&l, &others[j].v) <= 0 && lp_value_cmp(&others[j].v, &u) <= 0) ok = 0;
    }
    lp_value_destruct(&l); lp_value_destruct(&u);
    if (ok < 0) return 0;
    if (ok) {
      /* no integer inside: floor(l) == floor(u) and l not integer */
      lp_integer_t fl, fu; lp_integer_construct(&fl); lp_integer_construct(&fu);
      lp_dyadic_rational_floor(&a->I.a, &fl); lp_dyadic_rational_floor(&a->I.b, &fu);
      int same = lp_integer_cmp(lp_Z, &fl, &fu) == 0 && !lp_dyadic_rational_is_integer(&a->I.a);
      lp_integer_destruct(&fl); lp_integer_destruct(&fu);
      if (same) {
        lp_dyadic_rational_t m; lp_dyadic_rational_construct(&m);
        lp_dyadic_rational_add(&m, &a->I.a, &a->I.b); lp_dyadic_rational_div_2exp(&m, &m, 1);
        lp_rational_t r; lp_rational_construct_from_dyadic(&r, &m); sb_reset(); sb_mpq(&r);
        snprintf(p->name, sizeof p->name, "%s", sb_buf);
        lp_rational_destruct(&r); lp_dyadic_rational_destruct(&m);
        if (chance(50)) {   /* keep the box, hand the library the unrefined number */
          p->boxed = 1; lp_dyadic_rational_construct_copy(&p->blo, &a->I.a); lp_dyadic_rational_construct_copy(&p->bhi, &a->I.b);
          lp_value_destruct(&p->v); fresh_alg(alg_poly[ai], alg_root[ai], &p->v);
        }
        return 1;
      }
    }
    lp_algebraic_number_refine(a);
    /* the other algebraic numbers may need refinement too */
    for (int j = 0; j < nothers; ++j) if (others[j].v.type == LP_VALUE_ALGEBRAIC && !others[j].boxed) lp_algebraic_number_refine_const(&others[j].v.value.a);
  }
  return 0;
}

static int pv_cmp(const void* x, const void* y) { return lp_value_cmp(&((const pval*)x)->v, &((const pval*)y)->v); }

/* build a random pool of k distinct values, sorted */
static int random_pool(pval* pool, int k) {
  int n = 0;
  while (n < k) {
    pval p; unsigned t = rnd(100);
    if (t < 3) { static const long edge[] = { LONG_MAX, LONG_MAX - 1, LONG_MIN + 1, LONG_MIN + 2, LONG_MAX / 2 + 1 }; pv_int(&p, edge[rnd(5)]); }   /* counts at the limit of long */
    else if (t < 35) pv_int(&p, rnd_in(-3, 4));
    else if (t < 55) pv_rat(&p, rnd_in(-9, 12), 1 + rnd(4));
    else if (t < 70) pv_dy(&p, rnd_in(-9, 12), rnd(3));
    else {
      if (!nalg || !pv_alg(&p, (int)rnd(nalg), pool, n)) { if (nalg) lp_value_destruct(&p.v); continue; }
    }
    int dup = 0;
    for (int i = 0; i < n; ++i) if (lp_value_cmp(&pool[i].v, &p.v) == 0) dup = 1;
    /* a rational value sitting inside the isolating interval of an earlier algebraic one would break its surrogate */
    if (!dup && p.v.type != LP_VALUE_ALGEBRAIC) for (int i = 0; i < n; ++i) if (pool[i].v.type == LP_VALUE_ALGEBRAIC) {
      lp_value_t l, u;
      if (pool[i].v.value.a.I.is_point) continue;
      lp_value_construct(&l, LP_VALUE_DYADIC_RATIONAL, box_lo(&pool[i])); lp_value_construct(&u, LP_VALUE_DYADIC_RATIONAL, box_hi(&pool[i]));
      if (lp_value_cmp(&l, &p.v) <= 0 && lp_value_cmp(&p.v, &u) <= 0) dup = 1;
      lp_value_destruct(&l); lp_value_destruct(&u);
    }
    if (dup) { lp_value_destruct(&p.v); if (p.boxed) { lp_dyadic_rational_destruct(&p.blo); lp_dyadic_rational_destruct(&p.bhi); } continue; }
    pool[n++] = p;
  }
  qsort(pool, n, sizeof(pval), pv_cmp);
  return n;
}
static void free_pool(pval* pool, int n) { for (int i = 0; i < n; ++i) { lp_value_destruct(&pool[i].v); if (pool[i].boxed) { lp_dyadic_rational_destruct(&pool[i].blo); lp_dyadic_rational_destruct(&pool[i].bhi); } } }

/* probes: every pool value plus mid-points between neighbours and two outer points */
static int make_probes(const pval* pool, int k, pval* probes) {
  int n = 0;
  for (int i = 0; i < k; ++i) { lp_value_construct_copy(&probes[n].v, &pool[i].v); probes[n].boxed = 0; snprintf(probes[n].name, sizeof probes[n].name, "%s", pool[i].name); n++; }
  for (int i = 0; i + 1 < k; ++i) {
    lp_value_construct_none(&probes[n].v); probes[n].boxed = 0;
    { /* stay outside the isolating intervals of algebraic neighbours: their surrogates live there */
      lp_value_t lo, hi;
      if (pool[i].v.type == LP_VALUE_ALGEBRAIC && !pool[i].v.value.a.I.is_point) lp_value_construct(&lo, LP_VALUE_DYADIC_RATIONAL, box_hi(&pool[i]));
      else lp_value_construct_copy(&lo, &pool[i].v);
      if (pool[i + 1].v.type == LP_VALUE_ALGEBRAIC && !pool[i + 1].v.value.a.I.is_point) lp_value_construct(&hi, LP_VALUE_DYADIC_RATIONAL, box_lo(&pool[i + 1]));
      else lp_value_construct_copy(&hi, &pool[i + 1].v);
      lp_value_get_value_between(&lo, 1, &hi, 1, &probes[n].v);
      lp_value_destruct(&lo); lp_value_destruct(&hi);
    }
    if (!lp_value_is_rational(&probes[n].v)) { lp_value_destruct(&probes[n].v); continue; }
    lp_rational_t q; lp_rational_construct(&q); lp_value_get_rational(&probes[n].v, &q); sb_reset(); sb_mpq(&q);
    snprintf(probes[n].name, sizeof probes[n].name, "%s", sb_buf); lp_rational_destruct(&q); n++;
  }
  pv_int(&probes[n++], -50); pv_int(&probes[n++], 50);
  return n;
}

/* exhaustive */
static pval ex_pool[4]; static int ex_k = 3;
static pval ex_probes[16]; static int ex_np = 0;
static long exh_total(void) { long sets = 1L << (2 * ex_k + 1); return sets * sets; }
static void exhaustive_case(long idx) {
  long sets = 1L << (2 * ex_k + 1);
  unsigned long i = idx % sets, j = idx / sets;
  cur_pool = ex_pool; cur_npool = ex_k;
  lp_feasibility_set_t* a = set_from_mask(ex_pool, ex_k, i);
  lp_feasibility_set_t* b = set_from_mask(ex_pool, ex_k, j);
  observe_pair(a, b);
  if (j == 0) observe_single(a, ex_probes, ex_np);
  lp_feasibility_set_delete(a); lp_feasibility_set_delete(b);
}

static void random_case(void) {
  pval pool[MAXV]; int k = 2 + (int)rnd(5);
  k = random_pool(pool, k);
  cur_pool = pool; cur_npool = k;
  pval probes[3 * MAXV]; int np = make_probes(pool, k, probes);
  unsigned long full = (1UL << (2 * k + 1)) - 1;
  unsigned long m1 = rnd64() & full, m2 = rnd64() & full;
  if (chance(15)) m2 = m1;
  if (chance(10)) m2 = full;
  if (chance(10)) m1 &= m2;
  lp_feasibility_set_t* a = set_from_mask(pool, k, m1);
  lp_feasibility_set_t* b = set_from_mask(pool, k, m2);
  observe_pair(a, b);
  observe_single(a, probes, np);
  lp_feasibility_set_delete(a); lp_feasibility_set_delete(b);
  free_pool(probes, np); free_pool(pool, k);
}

int main(int argc, char** argv) {
  uint64_t seed = argc > 1 ? strtoull(argv[1], 0, 10) : 1;
  long n = argc > 2 ? atol(argv[2]) : 1000;
  long only = argc > 3 ? atol(argv[3]) : -1;
  long start = argc > 4 ? atol(argv[4]) : 0;
  lpv_init();
  build_algebraic();
  ex_k = getenv("LPV_EXH4") ? 4 : 3;
  for (int i = 0; i < ex_k; ++i) pv_int(&ex_pool[i], i);
  { int m = 0; for (int i = 0; i < ex_k; ++i) pv_int(&ex_probes[m++], i);
    for (int i = -1; i < ex_k; ++i) pv_rat(&ex_probes[m++], 2 * i + 1, 2);
    ex_np = m; }
  long ext = exh_total();
  long total = ext + n;
  for (long i = 0; i < total; ++i) {
    if ((only >= 0 && i != only) || i < start) continue;
    lpv_begin_case(seed, i);
    if (i < ext) exhaustive_case(i); else random_case();
  }
  for (int i = 0; i < ex_k; ++i) lp_value_destruct(&ex_pool[i].v);
  for (int i = 0; i < ex_np; ++i) lp_value_destruct(&ex_probes[i].v);
  for (int i = 0; i < nalg; ++i) lp_value_destruct(&alg_vals[i]);
  free(sb_buf);
  return 0;
}
