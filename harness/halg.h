/* shared by the C06-C12 harnesses: tokens for dyadics, algebraic numbers and values; generators of integer
 * polynomials with structured real roots and of algebraic numbers. */
#ifndef LPV_HALG_H
#define LPV_HALG_H
#include "hpoly.h"
#include <algebraic_number.h>
#include <value.h>
#include <interval.h>
#include <dyadic_interval.h>
#include <rational_interval.h>
#include <upolynomial_factors.h>

static void sb_dyq(const lp_dyadic_rational_t* d) { sb_mpz(&d->a); sb_str("@"); sb_ulong(d->n); }

/* P|<dyadic>   or   A|c0,c1,..|l|u|sgn_at_a|sgn_at_b|<a_open><b_open> */
static void sb_alg(const lp_algebraic_number_t* a) {
  if (a->f == 0) { sb_str("P|"); sb_dyq(&a->I.a); if (!a->I.is_point) sb_str("|notpoint"); return; }
  sb_str("A|");
  {
    size_t d = lp_upolynomial_degree(a->f);
    lp_integer_t* c = (lp_integer_t*)malloc((d + 1) * sizeof(lp_integer_t));
    for (size_t i = 0; i <= d; ++i) lp_integer_construct(&c[i]);
    lp_upolynomial_unpack(a->f, c);
    for (size_t i = 0; i <= d; ++i) { if (i) sb_str(","); sb_mpz(&c[i]); lp_integer_destruct(&c[i]); }
    free(c);
  }
  sb_str("|"); sb_dyq(&a->I.a); sb_str("|"); sb_dyq(&a->I.b);
  sb_str("|"); sb_long(a->sgn_at_a); sb_str("|"); sb_long(a->sgn_at_b);
  sb_str("|"); sb_long(a->I.a_open); sb_long(a->I.b_open); if (a->I.is_point) sb_str("pt");
}

/* Vz:<int>  Vd:<dyadic>  Vq:<rational>  Va:<alg>  V-inf  V+inf  Vnone */
static void sb_val(const lp_value_t* v) {
  switch (v->type) {
  case LP_VALUE_NONE: sb_str("Vnone"); break;
  case LP_VALUE_INTEGER: sb_str("Vz:"); sb_mpz(&v->value.z); break;
  case LP_VALUE_DYADIC_RATIONAL: sb_str("Vd:"); sb_dyq(&v->value.dy_q); break;
  case LP_VALUE_RATIONAL: sb_str("Vq:"); sb_mpq(&v->value.q); break;
  case LP_VALUE_ALGEBRAIC: sb_str("Va:"); sb_alg(&v->value.a); break;
  case LP_VALUE_PLUS_INFINITY: sb_str("V+inf"); break;
  case LP_VALUE_MINUS_INFINITY: sb_str("V-inf"); break;
  }
}

/* ------------------------------------------------------------------ polynomials with structured roots */
typedef struct { int deg; long c[8]; } hfac;
/* irreducible building blocks over Z */
static const hfac hfacs[] = {
  {1, {0, 1}}, {1, {-1, 1}}, {1, {1, 1}}, {1, {-2, 1}}, {1, {2, 1}}, {1, {-3, 1}}, {1, {-1, 2}}, {1, {1, 2}}, {1, {-3, 4}}, {1, {-1, 3}}, {1, {2, 3}},
  {1, {-5, 8}}, {1, {-7, 1}}, {1, {-1, 1024}}, {1, {-1025, 1024}},
  {2, {-2, 0, 1}}, {2, {-3, 0, 1}}, {2, {1, 0, 1}}, {2, {-1, -1, 1}}, {2, {-1, 0, 2}}, {2, {-5, 0, 1}}, {2, {1, 1, 1}}, {2, {-2, -2, 1}}, {2, {-8, 0, 1}}, {2, {-1, -4, 4}},
  {2, {-2, 0, 1024}}, {2, {-2047, 0, 1024}},
  {3, {-2, 0, 0, 1}}, {3, {1, -3, 0, 1}}, {3, {-1, -1, 0, 1}}, {3, {3, 0, -1, 1}},
  {4, {1, 0, 0, 0, 1}}, {4, {1, 0, -10, 0, 1}}, {4, {-2, 0, 0, 0, 1}}, {4, {2, 0, -4, 0, 1}},
};
#define NHFACS (sizeof hfacs / sizeof hfacs[0])

static lp_upolynomial_t* hfac_poly(const hfac* f) {
  return lp_upolynomial_construct_from_long(lp_Z, f->deg, f->c);
}

/* (2^k x - a)(2^k x - a - 1): two roots at distance 2^-k */
static lp_upolynomial_t* cluster_poly(unsigned k, long a) {
  long c1[2] = { -a, 1L << k }, c2[2] = { -a - 1, 1L << k };
  lp_upolynomial_t* p1 = lp_upolynomial_construct_from_long(lp_Z, 1, c1);
  lp_upolynomial_t* p2 = lp_upolynomial_construct_from_long(lp_Z, 1, c2);
  lp_upolynomial_t* r = lp_upolynomial_mul(p1, p2);
  lp_upolynomial_delete(p1); lp_upolynomial_delete(p2);
  return r;
}

static lp_upolynomial_t* upoly_times(lp_upolynomial_t* acc, lp_upolynomial_t* f) {
  lp_upolynomial_t* r = lp_upolynomial_mul(acc, f);
  lp_upolynomial_delete(acc); lp_upolynomial_delete(f);
  return r;
}

static int gen_root_poly_dense = 0;       /* force the dense small-coefficient family */
/* non-constant integer polynomial of degree <= maxdeg with a structured root pattern */
static lp_upolynomial_t* gen_root_poly(unsigned maxdeg) {
  unsigned k = rnd(100);
  lp_upolynomial_t* p;
  if (k >= 88 || gen_root_poly_dense) {          /* dense, small coefficients, degree 5..maxdeg: long remainder sequences in which dividing and non-dividing
                             elimination steps alternate */
    unsigned d = 5 + rnd(maxdeg > 5 ? maxdeg - 4 : 1); if (d > maxdeg) d = maxdeg;
    long c[12] = { 0 };
    for (unsigned i = 0; i <= d; ++i) c[i] = rnd_in(-3, 3);
    if (c[d] == 0) c[d] = chance(50) ? 1 : -1;
    if (c[0] == 0) c[0] = 1;
    return lp_upolynomial_construct_from_long(lp_Z, d, c);
  }
  if (k < 12) {           /* random dense / sparse */
    do { p = hp_random_upoly(0, 1 + rnd(maxdeg)); if (lp_upolynomial_degree(p) == 0) { lp_upolynomial_delete(p); p = 0; } } while (!p);
    return p;
  }
  if (k < 18) {           /* Mignotte-like x^n - 2(ax-1)^2 : two very close roots */
    unsigned n = 3 + rnd(maxdeg > 5 ? 3 : 1); long a = 2 + rnd(6);
    long c[10] = { 0 }; c[0] = -2; c[1] = 4 * a; c[2] = -2 * a * a; c[n] += 1;
    return lp_upolynomial_construct_from_long(lp_Z, n, c);
  }
  if (k < 27) {           /* several rational roots inside one dyadic cell of width 1/4, with different multiplicities: the roots of
                             the different square-free factors arrive with nested / overlapping isolating intervals */
    long base = rnd_in(-4, 4); int used[10] = { 0 }; unsigned deg = 0;
    long one[1] = { 1 }; p = lp_upolynomial_construct_from_long(lp_Z, 0, one);
    int nr = 2 + (int)rnd(3);
    for (int t = 0; t < nr; ++t) {
      int j = 1 + (int)rnd(9); if (used[j]) continue; used[j] = 1;
      unsigned mult = 1 + rnd(2); if (deg + mult > maxdeg) break;
      long num = 10 * base + j, den = 40, g = 1;                   /* the root base/4 + j/40 */
      for (long d = 2; d <= 40; ++d) while (num % d == 0 && den % d == 0) { num /= d; den /= d; g *= d; }
      long c[2] = { -num, den };
      for (unsigned m = 0; m < mult; ++m) p = upoly_times(p, lp_upolynomial_construct_from_long(lp_Z, 1, c));
      deg += mult;
    }
    if (lp_upolynomial_degree(p) > 0) return p;
    lp_upolynomial_delete(p);
  }
  {
    long one[1] = { chance(50) ? 1 : (chance(50) ? -1 : rnd_in(-6, 6)) }; if (one[0] == 0) one[0] = 2;
    p = lp_upolynomial_construct_from_long(lp_Z, 0, one);
  }
  unsigned deg = 0; int tries = 0;
  while (tries++ < 12) {
    if (deg >= maxdeg || (deg > 0 && chance(25))) break;
    if (chance(12) && deg + 2 <= maxdeg) { p = upoly_times(p, cluster_poly(4 + rnd(22), rnd_in(-40, 40))); deg += 2; continue; }
    const hfac* f = &hfacs[rnd(NHFACS)];
    unsigned mult = chance(75) ? 1 : (chance(70) ? 2 : 3);
    if (deg + f->deg * mult > maxdeg) { mult = 1; if (deg + f->deg > maxdeg) continue; }
    for (unsigned i = 0; i < mult; ++i) p = upoly_times(p, hfac_poly(f));
    deg += f->deg * mult;
  }
  if (lp_upolynomial_degree(p) == 0) { lp_upolynomial_delete(p); return hfac_poly(&hfacs[15]); }
  return p;
}

/* rational end point from a pool that contains the rational roots of the building blocks */
static void gen_endpoint(lp_rational_t* q) {
  static const long num[] = { 0, 1, -1, 2, -2, 3, 1, -1, 3, 1, -2, 5, 7, 1, 1025, 3, -3, 5, 10, -10, 1, -1, 100, -100 };
  static const long den[] = { 1, 1, 1, 1, 1, 1, 2, 2, 4, 3, 3, 8, 1, 1024, 1024, 2, 2, 2, 1, 1, 5, 7, 1, 1 };
  unsigned i = rnd(sizeof num / sizeof num[0]);
  lp_rational_construct_from_int(q, num[i], den[i]);
}

#endif
