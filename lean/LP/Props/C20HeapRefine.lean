/-
  C20 — the binary heap refines the bag with max-extraction, for EVERY history of push / pop / remove
  (`C20_heap_refines`): the array is in heap order and is a permutation of the reference bag (push adds the element, pop
  erases one maximum, remove erases every copy); every answer is the answer of the bag (`C20_heap_answers`): pop returns
  `listMax?` of the bag — a maximal element by `C20_spec_pop` — and remove reports the multiplicity.
-/
import LP.Props.C20HeapRemove
import LP.Props.C20

namespace LP
namespace Heap

theorem eraseOne_eq_erase (l : List Int) (m : Int) : eraseOne l m = l.erase m := by
  induction l with
  | nil => rfl
  | cons y r ih =>
    unfold eraseOne
    by_cases hy : y = m
    · subst hy; simp
    · rw [if_neg hy, List.erase_cons_tail (by simpa using hy), ih]

theorem listMax?_ne_none (x : Int) (l : List Int) : listMax? (x :: l) ≠ none := by
  unfold listMax?
  rw [List.foldl_cons]
  have gen : ∀ (l : List Int) (a : Int),
      l.foldl (fun acc x => match acc with | none => some x | some m => some (max m x)) (some a) ≠ none := by
    intro l
    induction l with
    | nil => intro a; simp
    | cons y l ih => intro a; rw [List.foldl_cons]; exact ih _
  exact gen l x

/-- the reference bag of a history -/
def specStep (b : List Int) : HOp → List Int
  | .push x => x :: b
  | .pop => match listMax? b with | some m => eraseOne b m | none => b
  | .remove x => b.filter (· ≠ x)

/-- what an operation answers: the element popped, the number of copies removed -/
def answer (h : Heap) : HOp → Option Int × Nat
  | .push _ => (none, 0)
  | .pop => ((pop h).2, 0)
  | .remove x => (none, (remove h x).2)

def specAnswer (b : List Int) : HOp → Option Int × Nat
  | .push _ => (none, 0)
  | .pop => (listMax? b, 0)
  | .remove x => (none, b.count x)

/-- **one operation of the heap against the reference bag** -/
theorem heap_step_ok (h : Heap) (b : List Int) (op : HOp) (hk : HeapOK h.data) (hb : h.data.toList.Perm b) :
    HeapOK (applyOp h op).data ∧ (applyOp h op).data.toList.Perm (specStep b op) ∧ answer h op = specAnswer b op := by
  cases op with
  | push x =>
    refine ⟨C20_heap_push_ok h x hk, ?_, rfl⟩
    have := Array.perm_iff_toList_perm.1 (C20_heap_push_perm h x)
    simp only [Array.toList_push] at this
    exact this.trans ((List.perm_append_singleton x _).trans (List.Perm.cons x hb))
  | pop =>
    show HeapOK (pop h).1.data ∧ (pop h).1.data.toList.Perm (specStep b .pop) ∧ ((pop h).2, 0) = (listMax? b, 0)
    cases ht : h.data[0]? with
    | none =>
      have he : h.data.toList = [] := by
        cases hl : h.data.toList with
        | nil => rfl
        | cons a r =>
          have : h.data[0]? = some a := by
            rw [← Array.getElem?_toList, hl]; rfl
          rw [ht] at this; exact absurd this (by simp)
      have hbe : b = [] := by rw [he] at hb; exact hb.nil_eq.symm
      rw [C20_heap_pop_empty h ht]
      subst hbe
      exact ⟨hk, by simpa [specStep, listMax?] using hb, rfl⟩
    | some top =>
      obtain ⟨hans, hperm⟩ := C20_heap_pop_perm h top ht
      obtain ⟨hk', hmax⟩ := C20_heap_pop_ok h top ht hk
      have hperm' := Array.perm_iff_toList_perm.1 hperm
      simp only [Array.toList_push] at hperm'
      -- top is a maximum of the bag
      have htop_mem : top ∈ b := by
        refine hb.subset ?_
        have : h.data.toList[0]? = some top := by rw [Array.getElem?_toList]; exact ht
        exact List.mem_of_getElem? this
      have hle : ∀ x ∈ b, x ≤ top := by
        intro x hx
        obtain ⟨k, hkl, rfl⟩ := List.getElem_of_mem (hb.symm.subset hx)
        have hk2 : k < h.data.size := by simpa using hkl
        simpa using hmax k hk2
      have hmaxb : listMax? b = some top := by
        cases hm : listMax? b with
        | none =>
          exfalso
          cases b with
          | nil => simp at htop_mem
          | cons y r => exact listMax?_ne_none y r hm
        | some m =>
          obtain ⟨hm1, hm2⟩ := (listMax?_spec b).2 m hm
          have : m = top := le_antisymm (hle m hm1) (hm2 top htop_mem)
          rw [this]
      refine ⟨hk', ?_, by rw [hans, hmaxb]⟩
      show (pop h).1.data.toList.Perm (specStep b .pop)
      simp only [specStep, hmaxb]
      rw [eraseOne_eq_erase]
      have h1 : ((pop h).1.data.toList ++ [top]).Perm b := hperm'.trans hb
      have h2 := h1.erase top
      have h3 : (((pop h).1.data.toList ++ [top]).erase top).Perm (pop h).1.data.toList := by
        have : ((pop h).1.data.toList ++ [top]).Perm (top :: (pop h).1.data.toList) := List.perm_append_singleton _ _
        have := this.erase top
        simpa using this
      exact h3.symm.trans h2
  | remove x =>
    show HeapOK (remove h x).1.data ∧ (remove h x).1.data.toList.Perm (b.filter (· ≠ x)) ∧
      ((none : Option Int), (remove h x).2) = (none, b.count x)
    obtain ⟨hnone, hcnt⟩ := C20_heap_remove_all h x
    have hperm := C20_heap_remove_perm h x
    refine ⟨C20_heap_remove_ok h x hk, ?_, by rw [hcnt, hb.count_eq]⟩
    have hnot : x ∉ (remove h x).1.data.toList := by
      intro hm
      obtain ⟨k, hkl, hkx⟩ := List.getElem_of_mem hm
      have hk' : k < (remove h x).1.data.size := by simpa using hkl
      apply hnone k hk'
      simp only [Array.getD, hk', dite_true]
      simpa using hkx
    have hf := (hperm.trans hb).filter (fun y => decide (y ≠ x))
    rw [List.filter_append] at hf
    have e1 : (remove h x).1.data.toList.filter (fun y => decide (y ≠ x)) = (remove h x).1.data.toList := by
      apply List.filter_eq_self.2
      intro y hy
      simp only [decide_eq_true_eq]
      intro e; rw [e] at hy; exact hnot hy
    have e2 : (List.replicate (remove h x).2 x).filter (fun y => decide (y ≠ x)) = [] := by
      apply List.filter_eq_nil_iff.2
      intro y hy
      have := List.eq_of_mem_replicate hy
      simp [this]
    rw [e1, e2, List.append_nil] at hf
    exact hf


/-- the heap and the reference bag after a history -/
def run (ops : List HOp) : Heap := ops.foldl applyOp Heap.empty
def specRun (ops : List HOp) : List Int := ops.foldl specStep []

/-- **the heap refines the bag with max-extraction, for every history**: after any history of push / pop / remove the array
    is in heap order and holds exactly the reference bag -/
theorem C20_heap_refines (ops : List HOp) : HeapOK (run ops).data ∧ (run ops).data.toList.Perm (specRun ops) := by
  suffices H : ∀ (ops : List HOp) (h : Heap) (b : List Int), HeapOK h.data → h.data.toList.Perm b →
      HeapOK (ops.foldl applyOp h).data ∧ (ops.foldl applyOp h).data.toList.Perm (ops.foldl specStep b) from
    H ops _ _ C20_heap_empty_ok (by simp [Heap.empty])
  intro ops
  induction ops with
  | nil => intro h b hk hb; exact ⟨hk, hb⟩
  | cons op ops ih =>
    intro h b hk hb
    obtain ⟨hk', hb', _⟩ := heap_step_ok h b op hk hb
    exact ih _ _ hk' hb'

/-- **every answer of the heap after any history is the answer of the bag**: pop returns a maximum of the bag (none for the
    empty bag), remove reports the multiplicity -/
theorem C20_heap_answers (ops : List HOp) (op : HOp) : answer (run ops) op = specAnswer (specRun ops) op := by
  obtain ⟨hk, hb⟩ := C20_heap_refines ops
  exact (heap_step_ok _ _ op hk hb).2.2

end Heap
end LP
