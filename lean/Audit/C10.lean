import LP.Props.GenTables
import LP.Props.Elim
#print axioms LP.Eval.ievalM_encloses
#print axioms LP.Eval.refineAll_sound
#print axioms LP.Eval.signLoop_sound
#print axioms LP.Eval.C10_sign_sound
#print axioms LP.Eval.C10_consistent
#print axioms LP.QPoly.ievalC_encloses
#print axioms LP.MPoly.resultant_vanishes
#print axioms LP.MPoly.evalAt_decompose
#print axioms LP.Eval.eliminant_root
#print axioms LP.Eval.C10_sign_exact
#print axioms LP.Gen.enum_order
#print axioms LP.Gen.negate_eq
#print axioms LP.Gen.consistent_eq
#print axioms LP.Gen.zpValid_eq
#print axioms LP.Gen.consistentInterval_eq
