/* C16 harness: bound inference and Fourier-Motzkin resolution.
 *   inf bounds P cond neg => rc k (xi I)*k
 *   inf explain P cond neg xi => poly | none
 *   inf fm P1 c1 P2 c2 asg => ok [R Rsgn n A1..An]
 * bounds: sums of univariate quadratics a_k x_k^2 + b_k x_k over distinct variables plus a constant, with any sign
 *   pattern of the a_k, any sign condition and polarity; plus polynomials that are not of that shape.
 * fm: pairs of constraints linear in the main variable x3 (after dropping leading terms that vanish under the model)
 *   with constant and parametric leading coefficients, all condition pairs.
 */
#include "halg.h"
#include <assignment.h>
#include <sign_condition.h>
#include <polynomial_vector.h>
#include <interval.h>
#include "polynomial/polynomial.h"   /* the external mark of the output (struct field) */

static lp_polynomial_t* P_new(void) { return lp_polynomial_new(hp_ctx[0]); }
static lp_polynomial_t* P_const(long c) {
  lp_polynomial_t* p = lp_polynomial_alloc(); lp_integer_t z; lp_integer_construct_from_int(lp_Z, &z, c);
  lp_polynomial_construct_simple(p, hp_ctx[0], &z, hp_x[0], 0); lp_integer_destruct(&z); return p;
}
static lp_polynomial_t* P_var(int i, unsigned e) {
  lp_polynomial_t* p = lp_polynomial_alloc(); lp_integer_t z; lp_integer_construct_from_int(lp_Z, &z, 1);
  lp_polynomial_construct_simple(p, hp_ctx[0], &z, hp_x[i], e); lp_integer_destruct(&z); return p;
}
static lp_polynomial_t* P_add(lp_polynomial_t* a, lp_polynomial_t* b) { lp_polynomial_t* r = P_new(); lp_polynomial_add(r, a, b); lp_polynomial_delete(a); lp_polynomial_delete(b); return r; }
static lp_polynomial_t* P_sub(lp_polynomial_t* a, lp_polynomial_t* b) { lp_polynomial_t* r = P_new(); lp_polynomial_sub(r, a, b); lp_polynomial_delete(a); lp_polynomial_delete(b); return r; }
static lp_polynomial_t* P_mul(lp_polynomial_t* a, lp_polynomial_t* b) { lp_polynomial_t* r = P_new(); lp_polynomial_mul(r, a, b); lp_polynomial_delete(a); lp_polynomial_delete(b); return r; }
static lp_polynomial_t* P_scale(lp_polynomial_t* a, long c) { return P_mul(a, P_const(c)); }

static void sb_vinterval(const lp_interval_t* I) {
  if (I->is_point) { sb_str("["); sb_val(&I->a); sb_str("]"); return; }
  sb_str(I->a_open ? "(" : "["); sb_val(&I->a); sb_str("~"); sb_val(&I->b); sb_str(I->b_open ? ")" : "]");
}

static void bounds_case(void) {
  /* A = sum_k (a_k x_k^2 + b_k x_k) + c */
  int used[4] = { 0 }, nused = 0;
  lp_polynomial_t* A = P_const(rnd_in(-12, 12));
  int flip = chance(35);
  for (int k = 0; k < 4; ++k) {
    if (!chance(55)) continue;
    long a = 1 + rnd(4), b = rnd_in(-6, 6);
    if (chance(8)) a = -a;                       /* not a sum of squares: must be refused */
    A = P_add(A, P_add(P_scale(P_var(k, 2), a), P_scale(P_var(k, 1), b)));
    used[k] = 1; ++nused;
  }
  if (nused == 0) { A = P_add(A, P_var(0, 2)); used[0] = 1; nused = 1; }
  if (chance(7)) A = P_add(A, P_mul(P_var(0, 1), P_var(1, 1)));          /* cross term */
  if (chance(5)) A = P_add(A, P_var(2, 3));                             /* cubic */
  if (flip) A = P_scale(A, -1);
  int cond = rnd(6), neg = chance(30);
  /* half of the inferences re-use an interval assignment that an earlier inference filled for all four variables and that was
     emptied by lp_interval_assignment_reset: what was written for variables that do not occur now must be gone */
  lp_interval_assignment_t* IM = lp_interval_assignment_new(hp_db);
  if (chance(50)) {
    lp_polynomial_t* pre = P_const(-(long)(1 + rnd(20)));
    for (int k = 0; k < 4; ++k) pre = P_add(pre, P_scale(P_var(k, 2), 1 + rnd(3)));
    (void)lp_polynomial_constraint_infer_bounds(pre, LP_SGN_LE_0, 0, IM);
    lp_polynomial_delete(pre);
    lp_interval_assignment_reset(IM);
  }
  sb_begin("inf", "bounds"); sb_sp(); sb_poly(A); sb_sp(); sb_long(cond); sb_sp(); sb_long(neg); sb_arrow();
  int rc = lp_polynomial_constraint_infer_bounds(A, (lp_sign_condition_t)cond, neg, IM);
  sb_sp(); sb_long(rc);
  if (rc == 1) {
    sb_sp(); sb_long(4);
    for (int k = 0; k < 4; ++k) { const lp_interval_t* I = lp_interval_assignment_get_interval(IM, hp_x[k]); sb_sp(); sb_long(k); sb_sp(); sb_vinterval(I); }
  }
  sb_emit();
  /* explanations */
  for (int k = 0; k < 4; ++k) {
    if (!used[k] || !chance(60)) continue;
    sb_begin("inf", "explain"); sb_sp(); sb_poly(A); sb_sp(); sb_long(cond); sb_sp(); sb_long(neg); sb_sp(); sb_long(k); sb_sp(); sb_long(rc); sb_sp(); sb_vinterval(lp_interval_assignment_get_interval(IM, hp_x[k])); sb_arrow();
    lp_polynomial_t* e = lp_polynomial_constraint_explain_infer_bounds(A, (lp_sign_condition_t)cond, neg, hp_x[k]);
    sb_sp(); if (e) sb_poly(e); else sb_str("none"); sb_emit();
    if (e) lp_polynomial_delete(e);
  }
  lp_interval_assignment_delete(IM);
  lp_polynomial_delete(A);
}

static lp_polynomial_t* lc_poly(void) {
  unsigned k = rnd(9);
  switch (k) {
  case 0: return P_const(1 + rnd(3));
  case 1: return P_const(-1 - (long)rnd(3));
  case 2: return P_var(0, 1);
  case 3: return P_sub(P_var(0, 1), P_const(1));
  case 4: return P_var(1, 1);
  case 5: return P_sub(P_var(0, 2), P_const(2));
  case 6: return P_scale(P_var(1, 1), -1);
  case 7: return P_add(P_var(0, 1), P_var(1, 1));
  default: return P_const(chance(50) ? 2 : -2);
  }
}

static lp_polynomial_t* fm_poly(void) {
  /* [V * x3^2 +] L * x3 + N,  V vanishing under the model (sometimes not) */
  lp_polynomial_t* p = P_add(P_mul(lc_poly(), P_var(3, 1)), hp_random_poly(0, 3, 1, 2));
  if (chance(20)) p = P_add(p, P_mul(P_sub(P_var(2, 1), P_const(1)), P_var(3, 2)));   /* x2 := 1 in most models below */
  if (lp_polynomial_is_constant(p) || lp_polynomial_top_variable(p) != hp_x[3]) { lp_polynomial_delete(p); p = P_sub(P_var(3, 1), P_var(0, 1)); }
  return p;
}

static void fm_case(void) {
  lp_assignment_t* M = lp_assignment_new(hp_db);
  lp_value_t v[3];
  for (int i = 0; i < 3; ++i) {
    lp_rational_t q;
    if (i == 2 && chance(80)) lp_rational_construct_from_int(&q, 1, 1);
    else lp_rational_construct_from_int(&q, rnd_in(-4, 4), chance(70) ? 1 : 2);
    if (i == 0 && chance(15)) { static const long s2[] = { -2, 0, 1 }; lp_upolynomial_t* f = lp_upolynomial_construct_from_long(lp_Z, 2, s2);
      lp_algebraic_number_t r[2]; size_t n = 0; lp_upolynomial_roots_isolate(f, r, &n); lp_value_construct(&v[i], LP_VALUE_ALGEBRAIC, &r[rnd(2)]);
      lp_algebraic_number_destruct(&r[0]); lp_algebraic_number_destruct(&r[1]); lp_upolynomial_delete(f); }
    else if (i != 2 && chance(18)) {      /* a non-dyadic rational as root isolation returns it: <3x - a, non-point interval> */
      long a = rnd_in(-5, 5); if (a % 3 == 0) a += 1;
      long c3[2] = { -a, 3 }; lp_upolynomial_t* f = lp_upolynomial_construct_from_long(lp_Z, 1, c3);
      lp_algebraic_number_t r[1]; size_t n = 0; lp_upolynomial_roots_isolate(f, r, &n);
      lp_value_construct(&v[i], LP_VALUE_ALGEBRAIC, &r[0]);
      lp_algebraic_number_destruct(&r[0]); lp_upolynomial_delete(f); }
    else lp_value_construct(&v[i], LP_VALUE_RATIONAL, &q);
    lp_rational_destruct(&q);
    lp_assignment_set_value(M, hp_x[i], &v[i]);
  }
  lp_polynomial_t* p1 = fm_poly(); lp_polynomial_t* p2 = fm_poly();
  int c1 = rnd(6), c2 = rnd(6);
  /* the output: fresh, or pre-used (unrelated polynomial), and marked external half of the time */
  lp_polynomial_t* R = chance(50) ? lp_polynomial_new(hp_ctx[0]) : hp_random_poly(0, NVARS, 2, 3);
  int R_ext = chance(50); if (R_ext) lp_polynomial_set_external(R);
  lp_sign_condition_t Rs = LP_SGN_EQ_0;
  lp_polynomial_vector_t* as = lp_polynomial_vector_new(hp_ctx[0]);
  sb_begin("inf", "fm"); sb_sp(); sb_poly(p1); sb_sp(); sb_long(c1); sb_sp(); sb_poly(p2); sb_sp(); sb_long(c2); sb_sp();
  for (int i = 0; i < 3; ++i) { if (i) sb_str(";"); sb_long(i); sb_str("="); sb_val(lp_assignment_get_value(M, hp_x[i])); }
  sb_arrow();
  int ok = lp_polynomial_constraint_resolve_fm(p1, (lp_sign_condition_t)c1, p2, (lp_sign_condition_t)c2, M, R, &Rs, as);
  sb_sp(); sb_long(ok);
  if (ok) {
    sb_sp(); sb_poly(R); sb_sp(); sb_long((long)Rs); sb_sp(); sb_ulong(lp_polynomial_vector_size(as));
    for (size_t i = 0; i < lp_polynomial_vector_size(as); ++i) { lp_polynomial_t* a = lp_polynomial_vector_at(as, i); sb_sp(); sb_poly(a); lp_polynomial_delete(a); }
  }
  sb_emit();
  /* an external output stays external (it keeps following order changes) and holds the context of the inputs */
  sb_begin("inf", "fmout"); sb_sp(); sb_long(R_ext); sb_arrow(); sb_sp(); sb_long(R->external ? 1 : 0); sb_sp(); sb_long(lp_polynomial_get_context(R) == hp_ctx[0]); sb_emit();
  lp_polynomial_vector_delete(as);
  lp_polynomial_delete(R); lp_polynomial_delete(p1); lp_polynomial_delete(p2);
  lp_assignment_delete(M);
  for (int i = 0; i < 3; ++i) lp_value_destruct(&v[i]);
}

int main(int argc, char** argv) {
  uint64_t seed = argc > 1 ? strtoull(argv[1], 0, 10) : 1;
  long n = argc > 2 ? atol(argv[2]) : 1000;
  long only = argc > 3 ? atol(argv[3]) : -1;
  long start = argc > 4 ? atol(argv[4]) : 0;
  lpv_init(); hp_init();
  for (long i = 0; i < n; ++i) {
    if ((only >= 0 && i != only) || i < start) continue;
    lpv_begin_case(seed, i);
    if (chance(50)) bounds_case(); else fm_case();
  }
  hp_done();
  free(sb_buf);
  return 0;
}
