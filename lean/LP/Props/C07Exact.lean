/-
  C07, unconditional part: for + , · and ^n the model's eliminant vanishes at the exact result (from
  `resultant_vanishes`), so an arithmetic result accepted by the checker denotes the exact value.
-/
import LP.Props.Elim
import LP.Props.C07

namespace LP
open MvPolynomial QPoly MPoly

namespace ZAlg

theorem evalAt_const (ν : ℕ → ℝ) (c : ℤ) : evalAt ν (MPoly.const none c) = (c : ℝ) := by
  unfold evalAt; rw [C01_const (compatible_none ℝ)]; simp

theorem evalAt_pow (ν : ℕ → ℝ) (p : MPoly) (n : ℕ) : evalAt ν (MPoly.pow none p n) = evalAt ν p ^ n := by
  unfold evalAt; rw [C01_pow (compatible_none ℝ), map_pow]

/-- Horner evaluation at a polynomial -/
theorem evalAt_hornerAt (ν : ℕ → ℝ) (cs : List Int) (t : MPoly) :
    evalAt ν (hornerAt cs t) = evalR (toQ cs) (evalAt ν t) := by
  unfold hornerAt toQ
  induction cs with
  | nil => simp [evalAt_nil, evalR_nil]
  | cons c cs ih =>
    rw [List.foldr_cons, evalAt_add, evalAt_const, evalAt_mul, ih, List.map_cons, evalR_cons]
    push_cast; ring

/-- value of the homogenised polynomial y^m f(z/y) -/
theorem evalAt_homog (ν : ℕ → ℝ) (cs : List Int) (z y : ℕ) (a b : ℝ) (hz : ν z = a * b) (hy : ν y = b) :
    evalAt ν (homog cs z y) = b ^ (cs.length - 1) * evalR (toQ cs) a := by
  unfold homog
  rw [evalAt_normalize]
  set m := cs.length - 1 with hm
  have gen : ∀ (l : List Int) (k : ℕ), k + l.length ≤ m + 1 →
      evalAt ν (List.map (fun (c : Int × Nat) =>
        ((if c.2 = 0 then [] else [(z, c.2)]) ++ (if m - c.2 = 0 then [] else [(y, m - c.2)]), c.1)) (l.zipIdx k)) =
        b ^ m * a ^ k * evalR (toQ l) a := by
    intro l
    induction l with
    | nil => intro k _; simp [evalAt_nil, toQ, evalR_nil]
    | cons c l ih =>
      intro k hk
      simp only [List.length_cons] at hk
      rw [List.zipIdx_cons, List.map_cons, evalAt_cons, ih (k + 1) (by omega)]
      unfold toQ
      rw [List.map_cons, evalR_cons, eval_monomial, Mono.toFinsupp_append,
        Finsupp.prod_add_index' (by intro a; simp) (by intro a b₁ b₂; rw [pow_add])]
      have e1 : (Mono.toFinsupp (if k = 0 then [] else [(z, k)])).prod (fun v e => ν v ^ e) = (a * b) ^ k := by
        by_cases hk0 : k = 0
        · simp [hk0, Mono.toFinsupp_nil]
        · simp only [hk0, if_false, Mono.toFinsupp_cons, Mono.toFinsupp_nil, add_zero]
          rw [Finsupp.prod_single_index (by simp), hz]
      have e2 : (Mono.toFinsupp (if m - k = 0 then [] else [(y, m - k)])).prod (fun v e => ν v ^ e) = b ^ (m - k) := by
        by_cases hk0 : m - k = 0
        · simp [hk0, Mono.toFinsupp_nil]
        · simp only [hk0, if_false, Mono.toFinsupp_cons, Mono.toFinsupp_nil, add_zero]
          rw [Finsupp.prod_single_index (by simp), hy]
      rw [e1, e2]
      have hb : b ^ m = b ^ k * b ^ (m - k) := by rw [← pow_add]; congr 1; omega
      rw [hb]
      push_cast
      ring
  have := gen cs 0 (by rw [hm]; omega)
  simpa using this

theorem elimOf_vanishes (P Q : MPoly) (ν : ℕ → ℝ) (hne : elimOf P Q ≠ [])
    (h1 : evalAt ν P = 0) (h2 : evalAt ν Q = 0) : evalR (toQ (elimOf P Q)) (ν 0) = 0 := by
  unfold elimOf at hne ⊢
  by_cases hdeg : MPoly.degreeIn 1 P + MPoly.degreeIn 1 Q = 0
  · rw [if_pos hdeg] at hne; exact absurd rfl hne
  rw [if_neg hdeg] at hne ⊢
  have hres := resultant_vanishes ν 1 P Q (by omega) h1 h2
  by_cases hu : univariateIn 0 (resultantSpec none 1 P Q) = true
  · rw [evalAt_dense ν 0 _ hu]; exact hres
  · exfalso; apply hne; unfold dense; rw [if_neg hu]

/-- **the eliminant vanishes at the exact result** -/
theorem eliminant_add (f g : List Int) (α β : ℝ) (hf : evalR (toQ f) α = 0) (hg : evalR (toQ g) β = 0)
    (hne : eliminant .add f g ≠ []) : evalR (toQ (eliminant .add f g)) (α + β) = 0 := by
  unfold eliminant at hne ⊢
  have := elimOf_vanishes _ _ (fun v => if v = 0 then α + β else if v = 1 then β else 0) hne
    (by
      show evalAt _ (hornerAt f (MPoly.sub none (varP 0) (varP 1))) = 0
      rw [evalAt_hornerAt, evalAt_sub, evalAt_varP, evalAt_varP]
      norm_num
      exact hf)
    (by
      show evalAt _ (uni 1 g) = 0
      rw [evalAt_uni]; norm_num; exact hg)
  simpa using this

theorem eliminant_mul (f g : List Int) (α β : ℝ) (hf : evalR (toQ f) α = 0) (hg : evalR (toQ g) β = 0)
    (hne : eliminant .mul f g ≠ []) : evalR (toQ (eliminant .mul f g)) (α * β) = 0 := by
  unfold eliminant at hne ⊢
  have := elimOf_vanishes _ _ (fun v => if v = 0 then α * β else if v = 1 then β else 0) hne
    (by
      show evalAt _ (homog f 0 1) = 0
      rw [evalAt_homog _ f 0 1 α β (by simp) (by simp), hf, mul_zero])
    (by
      show evalAt _ (uni 1 g) = 0
      rw [evalAt_uni]; norm_num; exact hg)
  simpa using this

theorem eliminant_pow (n : ℕ) (f g : List Int) (α : ℝ) (hf : evalR (toQ f) α = 0)
    (hne : eliminant (.pow n) f g ≠ []) : evalR (toQ (eliminant (.pow n) f g)) (α ^ n) = 0 := by
  unfold eliminant at hne ⊢
  have := elimOf_vanishes _ _ (fun v => if v = 0 then α ^ n else if v = 1 then α else 0) hne
    (by
      show evalAt _ (MPoly.sub none (varP 0) (MPoly.pow none (varP 1) n)) = 0
      rw [evalAt_sub, evalAt_varP, evalAt_pow, evalAt_varP]
      simp)
    (by
      show evalAt _ (uni 1 f) = 0
      rw [evalAt_uni]; norm_num; exact hf)
  simpa using this

/-- the exact value of x ⊕ y -/
noncomputable def opVal : Op → ℝ → ℝ → ℝ
  | .add, a, b => a + b
  | .mul, a, b => a * b
  | .pow n, a, _ => a ^ n

theorem image_mem (op : Op) (a b : Alg) (x y : ℝ) (hx : a.Den x) (hy : b.Den y) : (image op a b).memR (opVal op x y) := by
  have henc := image_encloses a b x y hx hy
  cases op with
  | add => exact henc.1
  | mul => exact henc.2.1
  | pow n => exact henc.2.2 n

theorem eliminant_vanishes (op : Op) (f g : List Int) (α β : ℝ)
    (hf : evalR (toQ f) α = 0) (hg : evalR (toQ g) β = 0)
    (hne : eliminant op f g ≠ []) :
    evalR (toQ (eliminant op f g))
      (opVal op α β) = 0 := by
  cases op with
  | add => exact eliminant_add f g α β hf hg hne
  | mul => exact eliminant_mul f g α β hf hg hne
  | pow n => exact eliminant_pow n f g α hf hne

/-- the selection loop returns the image of refined operands that still denote the same numbers, with exactly one
    root of the eliminant inside -/
theorem selectLoop_spec (op : Op) (R : QPoly) : ∀ (fuel : ℕ) (a b : Alg) (J : CI) (α β : ℝ),
    a.Valid → a.Den α → b.Valid → b.Den β → selectLoop op R fuel a b = some J →
    ∃ a' b', a'.Den α ∧ b'.Den β ∧ J = image op a' b' ∧ countIn R J.lo false J.hi false = some 1 := by
  intro fuel
  induction fuel with
  | zero => intro a b J α β _ _ _ _ h; simp [selectLoop] at h
  | succ fuel ih =>
    intro a b J α β hva ha hvb hb h
    rw [selectLoop] at h
    cases hc : countIn R (image op a b).lo false (image op a b).hi false with
    | none => rw [hc] at h; simp at h
    | some n =>
      rw [hc] at h
      simp only at h
      by_cases h1 : n = 1
      · rw [if_pos h1] at h
        simp only [Option.some.injEq] at h
        subst h
        exact ⟨a, b, ha, hb, rfl, by rw [hc, h1]⟩
      · rw [if_neg h1] at h
        by_cases h0 : n = 0
        · rw [if_pos h0] at h; simp at h
        · rw [if_neg h0] at h
          cases hra : Alg.refine a with
          | none => rw [hra] at h; simp at h
          | some a' =>
            cases hrb : Alg.refine b with
            | none => rw [hra, hrb] at h; simp at h
            | some b' =>
              rw [hra, hrb] at h
              simp only at h
              obtain ⟨da, va⟩ := Alg.refine_sound a a' α hva ha hra
              obtain ⟨db, vb⟩ := Alg.refine_sound b b' β hvb hb hrb
              exact ih a' b' J α β va da vb db h

/-- **arithmetic is exact**: if the checker accepts t as x ⊕ y (⊕ ∈ +, ·, ^n; for ^n the second operand is ignored)
    then t denotes α ⊕ β -/
theorem C07_result_exact (op : Op) (x y : ZAlg) (t : Alg) (α β τ : ℝ)
    (hvx : x.a.Valid) (hx : x.a.Den α) (hvy : y.a.Valid) (hy : y.a.Den β) (hvt : t.Valid) (ht : t.Den τ)
    (hfx : evalR (toQ x.f) α = 0) (hfy : evalR (toQ y.f) β = 0)
    (h : (result op x y).bind (fun r => isThe r.1 r.2 t) = some true) :
    τ = (opVal op α β) := by
  unfold result at h
  simp only at h
  split_ifs at h with hz
  · simp at h
  cases hs : sqfreePart (toQ (eliminant op x.f y.f)) with
  | none => rw [hs] at h; simp at h
  | some R =>
    rw [hs] at h
    simp only at h
    cases hsel : selectLoop op R 200 x.a y.a with
    | none => rw [hsel] at h; simp at h
    | some J =>
      rw [hsel] at h
      simp only [Option.map_some, Option.bind_some] at h
      obtain ⟨a', b', ha', hb', hJ, hcount⟩ := selectLoop_spec op R 200 x.a y.a J α β hvx hx hvy hy hsel
      have hne : eliminant op x.f y.f ≠ [] := by
        intro h0; rw [h0] at hz; simp at hz
      have hroot := eliminant_vanishes op x.f y.f α β hfx hfy hne
      have hR := (sqfreePart_sound _ R hs _).1 hroot
      have hmem := image_mem op a' b' α β ha' hb'
      rw [← hJ] at hmem
      exact C07_select_sound R J t τ _ hcount hR hmem hvt ht h

/-- **C07 (arithmetic)**: whenever the checker answers "yes, t = x ⊕ y", the denoted reals satisfy τ = α ⊕ β — for every
    operand, without any assumption on the eliminant. -/
theorem C07_opEq_sound (op : Op) (x y t : ZAlg) (α β τ : ℝ)
    (hvx : x.a.Valid) (hx : x.a.Den α) (hvy : y.a.Valid) (hy : y.a.Den β) (hvt : t.a.Valid) (ht : t.a.Den τ)
    (hfx : evalR (toQ x.f) α = 0) (hfy : evalR (toQ y.f) β = 0)
    (h : opEq op x y t = some true) : τ = opVal op α β := by
  cases op with
  | add => exact C07_result_exact .add x y t.a α β τ hvx hx hvy hy hvt ht hfx hfy h
  | pow n => exact C07_result_exact (.pow n) x y t.a α β τ hvx hx hvy hy hvt ht hfx hfy h
  | mul =>
    unfold opEq at h
    simp only at h
    cases hsx : Alg.sgn x.a with
    | none => rw [hsx] at h; simp at h
    | some sx =>
      cases hsy : Alg.sgn y.a with
      | none => rw [hsx, hsy] at h; simp at h
      | some sy =>
        rw [hsx, hsy] at h
        simp only at h
        by_cases hz : sx = 0 ∨ sy = 0
        · rw [if_pos hz] at h
          cases hst : Alg.sgn t.a with
          | none => rw [hst] at h; simp at h
          | some st =>
            rw [hst] at h
            simp only [Option.map_some, Option.some.injEq, beq_iff_eq] at h
            have h1 := Alg.sgn_sound t.a st τ hvt ht hst
            have hτ : τ = 0 := by
              subst h; simpa [Alg.CmpIs] using h1
            have hαβ : α * β = 0 := by
              rcases hz with hz | hz
              · have := Alg.sgn_sound x.a sx α hvx hx hsx
                subst hz
                have h0 : α = 0 := by simpa [Alg.CmpIs] using this
                rw [h0, zero_mul]
              · have := Alg.sgn_sound y.a sy β hvy hy hsy
                subst hz
                have h0 : β = 0 := by simpa [Alg.CmpIs] using this
                rw [h0, mul_zero]
            show τ = α * β
            rw [hτ, hαβ]
        · rw [if_neg hz] at h
          exact C07_result_exact .mul x y t.a α β τ hvx hx hvy hy hvt ht hfx hfy h

/-- subtraction is validated as `r + y = x` -/
theorem C07_sub_sound (x y r : ZAlg) (α β ρ : ℝ)
    (hvr : r.a.Valid) (hr : r.a.Den ρ) (hvy : y.a.Valid) (hy : y.a.Den β) (hvx : x.a.Valid) (hx : x.a.Den α)
    (hfr : evalR (toQ r.f) ρ = 0) (hfy : evalR (toQ y.f) β = 0)
    (h : opEq .add r y x = some true) : ρ = α - β := by
  have := C07_opEq_sound .add r y x ρ β α hvr hr hvy hy hvx hx hfr hfy h
  simp only [opVal] at this
  linarith

/-- division is validated as `r · y = x` with y ≠ 0 -/
theorem C07_div_sound (x y r : ZAlg) (α β ρ : ℝ) (hβ : β ≠ 0)
    (hvr : r.a.Valid) (hr : r.a.Den ρ) (hvy : y.a.Valid) (hy : y.a.Den β) (hvx : x.a.Valid) (hx : x.a.Den α)
    (hfr : evalR (toQ r.f) ρ = 0) (hfy : evalR (toQ y.f) β = 0)
    (h : opEq .mul r y x = some true) : ρ = α / β := by
  have := C07_opEq_sound .mul r y x ρ β α hvr hr hvy hy hvx hx hfr hfy h
  simp only [opVal] at this
  rw [this]; field_simp

/-! non-vacuity: the checker does answer "yes" on irrational operands (kernel evaluation of the model) -/
example : opEq .mul ⟨[-2,0,1], .root [-2,0,1] 1 2⟩ ⟨[-2,0,1], .root [-2,0,1] 1 2⟩ (ofRat 2) = some true := by decide +kernel
example : opEq .add ⟨[-2,0,1], .root [-2,0,1] 1 2⟩ ⟨[-3,0,1], .root [-3,0,1] 1 2⟩
    ⟨[1,0,-10,0,1], .root [1,0,-10,0,1] 3 4⟩ = some true := by decide +kernel
example : opEq (.pow 3) ⟨[-2,0,1], .root [-2,0,1] 1 2⟩ (ofRat 0) ⟨[-8,0,1], .root [-8,0,1] 2 3⟩ = some true := by decide +kernel

end ZAlg
end LP
