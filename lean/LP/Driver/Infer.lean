import LP.Model.Infer
import LP.Driver.Eval
namespace LP.Driver
open LP LP.QPoly

def xMain : Nat := 3

/-- the two projection end points as algebraic numbers (one if the radius is 0) -/
def projRoots (q : Infer.Quad) (D : Rat) : Option (List Alg) :=
  let f := Infer.projPoly q D
  match realRoots (upToQ f) with
  | none => none
  | some cells =>
    match sqfreePart (upToQ f) with
    | none => none
    | some s => some (cells.map (Eval.cellAlg s))

/-- does the C interval contain the segment between the roots (open segment if `strict`)? -/
def intervalContains (I : Val × Bool × Val × Bool) (rs : List Alg) (strict : Bool) : Option Bool :=
  match rs.head?, rs.getLast? with
  | some r1, some r2 =>
    let lowOk : Option Bool := match I.1 with
      | .minf => some true
      | v => match v.toZ? with
        | none => some false
        | some z => (Alg.cmp z.a r1).map (fun c => c < 0 || (c = 0 && (!I.2.1 || strict)))
    let highOk : Option Bool := match I.2.2.1 with
      | .pinf => some true
      | v => match v.toZ? with
        | none => some false
        | some z => (Alg.cmp r2 z.a).map (fun c => c < 0 || (c = 0 && (!I.2.2.2 || strict)))
    match lowOk, highOk with
    | some a, some b => some (a && b)
    | _, _ => none
  | _, _ => some true

def isFull (I : Val × Bool × Val × Bool) : Bool :=
  (match I.1 with | .minf => true | _ => false) && (match I.2.2.1 with | .pinf => true | _ => false)

/-- pairs `k I` -/
def pBoxes? : List String → Option (List (Nat × (Val × Bool × Val × Bool)))
  | [] => some []
  | k :: i :: rest => do
      let k ← pNat? k
      let i ← pVInt? i
      let tl ← pBoxes? rest
      some ((k, i) :: tl)
  | _ => none

/-- search for a point at which both premises hold, every recorded sign assumption keeps the sign it has at the model, and the
    returned resolvent fails: a concrete refutation of "the resolvent is a consequence of the premises" -/
def fmCounterexample (p1 : MPoly) (c1 : Nat) (p2 : MPoly) (c2 : Nat) (R : MPoly) (rc : Nat) (asms : List MPoly) (a : LP.Asg) :
    Option String :=
  match asms.mapM (fun q => Eval.exactSign q a) with
  | none => none
  | some msigns =>
    let vs := ((p1 ++ p2 ++ R ++ asms.flatten).flatMap (fun t => t.1.map (·.1))).eraseDups
    if vs.length > 5 then none else
    let grid : List Int := [0, 1, -1, 2, -2, 3, -3]
    let pts : List (List (Nat × Int)) := vs.foldl (fun acc v => acc.flatMap (fun pt => grid.map (fun g => (v, g) :: pt))) [[]]
    let bad := pts.find? (fun pt =>
      let f : Nat → Int := fun v => ((pt.find? (fun e => e.1 = v)).map (·.2)).getD 0
      (asms.zip msigns).all (fun e => sgnI (MPoly.evalInt e.1 f) = e.2) &&
      Eval.consistent c1 (sgnI (MPoly.evalInt p1 f)) && Eval.consistent c2 (sgnI (MPoly.evalInt p2 f)) &&
      !Eval.consistent rc (sgnI (MPoly.evalInt R f)))
    bad.map (fun pt => s!"at {pt.map (fun e => s!"x{e.1}={e.2}")} both premises and all sign assumptions hold but the resolvent fails")

def checkInfer (op : String) (args res : List String) : Verdict :=
  match op, args, res with
  | "bounds", [ps, cs, ng], rcs :: rest =>
    match pPolyRaw? ps, pNat? cs, pNat? ng, pInt? rcs with
    | some raw, some c0, some ng, some rc =>
      let p := MPoly.normalize none raw
      let c := if ng ≠ 0 then Eval.negateCond c0 else c0
      if rc = 0 then .ok s!"inf/bounds/declined/{c}" else
      match Infer.sosShape p with
      | none => .disagree s!"bounds claimed (rc={rc}) for a polynomial that is not a sum of univariate quadratics of one sign"
      | some (σ, qs, k) =>
        let cσ := if σ < 0 then Infer.flipCond c else c
        let D := Infer.radius qs k
        let sol := Infer.solKind cσ D
        if rc = -1 then
          if sol = .empty then .ok s!"inf/bounds/conflict/{cσ}" else .viol "inf/bounds/conflict" s!"conflict reported but the constraint has real solutions (D = {showRat D})"
        else
          match rest with
          | _n :: boxes =>
            match pBoxes? boxes with
            | none => .skip "parse boxes"
            | some bs =>
              -- a variable that does not occur is not constrained: whenever the constraint has a solution its interval must be full
              let stray := bs.find? (fun b => !(qs.any (fun q => q.x = b.1)) && !isFull b.2)
              match sol, stray with
              | .box _, some b | .unbounded, some b =>
                .viol "inf/bounds/unsound" s!"interval reported for x{b.1}, which does not occur in the constraint (stale entry of the interval assignment?)"
              | _, _ =>
              match sol with
              | .empty => .ok s!"inf/bounds/empty-but-bounded/{cσ}"
              | .unbounded =>
                if bs.all (fun b => isFull b.2 || !(qs.any (fun q => q.x = b.1))) then .ok s!"inf/bounds/unbounded/{cσ}"
                else .viol "inf/bounds/unsound" s!"bounds inferred for a constraint whose solutions are unbounded in every variable (condition {cσ})"
              | .box strict =>
                let bad := qs.findSome? (fun q =>
                  match bs.find? (fun b => b.1 = q.x) with
                  | none => none
                  | some b =>
                    match projRoots q D with
                    | none => none
                    | some rs =>
                      match intervalContains b.2 rs strict with
                      | some false => some s!"interval of x{q.x} does not contain all solutions"
                      | _ => none)
                match bad with
                | some m => .viol "inf/bounds/unsound" m
                | none => .ok s!"inf/bounds/box/{cσ}/{qs.length}"
          | _ => .skip "parse"
    | _, _, _, _ => .skip "parse"
  | "explain", [ps, cs, ng, ks, rcs, is], [es] =>
    match pPolyRaw? ps, pNat? cs, pNat? ng, pNat? ks, pInt? rcs, pVInt? is with
    | some raw, some _c0, some _ng, some k, some rc, some I =>
      if rc ≠ 1 then .ok "inf/explain/no-claim" else
      if es = "none" then .viol "inf/explain" "bounds were inferred but no explanation polynomial is returned" else
      match pPolyRaw? es with
      | none => .skip "parse"
      | some eraw =>
        let e := MPoly.normalize none eraw
        if (MPoly.vars e).any (· ≠ k) then .viol "inf/explain" "explanation polynomial mentions other variables" else
        let f := ZAlg.dense k e
        match realRoots (upToQ f), sqfreePart (upToQ f) with
        | some cells, some s =>
          let rs := cells.map (Eval.cellAlg s)
          -- finite end points of the inferred interval
          let eps : List Val := (if I.1.isInf then [] else [I.1]) ++ (if I.2.2.1.isInf then [] else [I.2.2.1])
          let epsA := eps.filterMap (fun v => v.toZ?.map (·.a))
          let inRoots := epsA.all (fun a => rs.any (fun r => Alg.cmp a r == some 0))
          let rootsIn := rs.all (fun r => epsA.any (fun a => Alg.cmp a r == some 0))
          if inRoots && rootsIn then .ok s!"inf/explain/{rs.length}" else .viol "inf/explain" "the real roots of the explanation polynomial are not the inferred end points"
        | _, _ => .skip "fuel"
    | _, _, _, _, _, _ => .skip "parse"
  | "fm", [p1s, c1s, p2s, c2s, as], oks :: rest =>
    match pPolyRaw? p1s, pNat? c1s, pPolyRaw? p2s, pNat? c2s, pAsg? as, pInt? oks with
    | some r1, some c1, some r2, some c2, some av, some ok =>
      if ok = 0 then .ok "inf/fm/declined" else
      match asgToZ av, rest with
      | some a, Rs :: rcs :: _n :: asm =>
        match pPolyRaw? Rs, pNat? rcs, asm.mapM pPolyRaw? with
        | some Rraw, some rc, some asmRaw =>
          let R := MPoly.normalize none Rraw
          let p1 := MPoly.normalize none r1
          let p2 := MPoly.normalize none r2
          if MPoly.degreeIn xMain R > 0 then .viol "inf/fm/not-eliminated" "the resolvent still contains the eliminated variable" else
          match Infer.resolve p1 c1 p2 c2 xMain a with
          | none => .skip "sign out of fuel"
          | some none => .disagree "resolution reported where the model finds no positive combination"
          | some (some w) =>
            let asmN := asmRaw.map (MPoly.normalize none)
            let missing := w.assumptions.filter (fun q => !(asmN.contains q || asmN.contains (MPoly.neg none q)))
            if !missing.isEmpty then .viol "inf/fm/assumption" s!"sign assumption not recorded: {missing.map showPoly}"
            else if R = w.R ∧ rc = w.cond then .ok s!"inf/fm/{c1}-{c2}/{if w.assumptions.isEmpty then "const" else "param"}"
            else if rc ≠ w.cond then .viol "inf/fm/cond" s!"resolvent condition {rc}, expected {w.cond}"
            else
              match fmCounterexample p1 c1 p2 c2 R rc (asmN ++ w.assumptions) a with
              | some msg => .viol "inf/fm/unsound" msg
              | none => .disagree "resolvent differs from the positive combination of the model"
        | _, _, _ => .skip "parse"
      | _, _ => .skip "parse"
    | _, _, _, _, _, _ => .skip "parse"
  | "fmout", [e], [e', c] =>
    if c ≠ "1" then .viol "inf/fm/out-context" "the resolvent object does not carry the context of the inputs"
    else if e ≠ e' then .viol "inf/fm/out-external" s!"external mark of the output changed from {e} to {e'}"
    else .ok s!"inf/fmout/{e}"
  | _, _, _ => .skip s!"unknown inf op {op}"

end LP.Driver
