/-
  C05 — factorizations multiply back and have the promised structure.

  Every factorization returned by the library is judged per output by `LP.Driver.Factor` / `LP.Model.Factor`:
  exact product (with the constant and multiplicities), square-freeness and pairwise coprimality by verified
  Bezout certificates (univariate) or non-vanishing discriminants / resultants in every variable (multivariate),
  complete factorization over F_p by trial division, and over ℤ by comparison with the irreducible building blocks
  of the input, each re-certified irreducible by the model (irreducible modulo a prime not dividing the leading
  coefficient, or Kronecker).  Proved here, for all inputs:
  * `toPolyZ` is a ring homomorphism on the list arithmetic used for the product check, so an accepted product
    check is an identity in ℤ[X] (`C05_product_sound`);
  * an accepted square-freeness certificate implies `Squarefree` in ℚ[X] (`C05_sqfree_cert_sound`), an accepted
    coprimality certificate implies `IsCoprime` (C03).
  `_partial`: irreducibility certificates (mod p, Kronecker, trial division over F_p) and the multivariate
  discriminant criterion are executable checks whose classical justification is not formalised; uniqueness of
  factorization (that the certified blocks are *the* factorization) is Mathlib's UFD theory, not instantiated here.
-/
import LP.Props.C03
import LP.Props.RootCount
import LP.Driver.Factor
import Mathlib.FieldTheory.Separable

namespace LP
open Polynomial

namespace Factor

/-- the integer polynomial denoted by a coefficient list (low degree first) -/
noncomputable def toPolyZ : List Int → ℤ[X]
  | [] => 0
  | c :: p => C c + X * toPolyZ p

theorem toPolyZ_nil : toPolyZ [] = 0 := rfl
theorem toPolyZ_cons (c : ℤ) (p : List Int) : toPolyZ (c :: p) = C c + X * toPolyZ p := rfl

theorem toPolyZ_add (p q : List Int) : toPolyZ (zAdd p q) = toPolyZ p + toPolyZ q := by
  induction p generalizing q with
  | nil => simp [zAdd, toPolyZ_nil]
  | cons a p ih =>
    cases q with
    | nil => simp [zAdd, toPolyZ_nil]
    | cons b q =>
      simp only [zAdd, toPolyZ_cons, ih, map_add]
      ring

theorem toPolyZ_smul (c : ℤ) (p : List Int) : toPolyZ (zSmul c p) = C c * toPolyZ p := by
  induction p with
  | nil => simp [zSmul, toPolyZ_nil]
  | cons a p ih =>
    have : zSmul c (a :: p) = (c * a) :: zSmul c p := rfl
    rw [this, toPolyZ_cons, toPolyZ_cons, ih, map_mul]
    ring

theorem toPolyZ_mul (p q : List Int) : toPolyZ (zMul p q) = toPolyZ p * toPolyZ q := by
  induction p with
  | nil => simp [zMul, toPolyZ_nil]
  | cons a p ih =>
    simp only [zMul, toPolyZ_add, toPolyZ_smul, toPolyZ_cons, ih]
    simp
    ring

theorem toPolyZ_pow (p : List Int) (n : ℕ) : toPolyZ (zPow p n) = toPolyZ p ^ n := by
  induction n with
  | zero => simp [zPow, toPolyZ_cons, toPolyZ_nil]
  | succ n ih => rw [zPow, toPolyZ_mul, ih, pow_succ]; ring

theorem toPolyZ_append_zero (p : List Int) : toPolyZ (p ++ [0]) = toPolyZ p := by
  induction p with
  | nil => simp [toPolyZ_cons, toPolyZ_nil]
  | cons a p ih => rw [List.cons_append, toPolyZ_cons, toPolyZ_cons, ih]

theorem toPolyZ_trim (p : List Int) : toPolyZ (zTrim p) = toPolyZ p := by
  unfold zTrim
  have gen : ∀ r : List Int, toPolyZ ((r.dropWhile (· = 0)).reverse) = toPolyZ r.reverse := by
    intro r
    induction r with
    | nil => rfl
    | cons a r ih =>
      by_cases h : a = 0
      · rw [List.dropWhile_cons_of_pos (by simpa using h), ih, List.reverse_cons, h, toPolyZ_append_zero]
      · rw [List.dropWhile_cons_of_neg (by simpa using h)]
  have := gen p.reverse
  rwa [List.reverse_reverse] at this

/-- product of the factors with multiplicities, as computed by the driver -/
theorem toPolyZ_product (c : ℤ) (fs : List (List Int × ℕ)) :
    toPolyZ (LP.Driver.zProduct c fs) = C c * (fs.map (fun fm => toPolyZ fm.1 ^ fm.2)).prod := by
  unfold LP.Driver.zProduct
  have gen : ∀ (fs : List (List Int × ℕ)) (acc : List Int),
      toPolyZ (fs.foldl (fun acc fm => zMul acc (zPow fm.1 fm.2)) acc) =
        toPolyZ acc * (fs.map (fun fm => toPolyZ fm.1 ^ fm.2)).prod := by
    intro fs
    induction fs with
    | nil => intro acc; simp
    | cons fm fs ih =>
      intro acc
      rw [List.foldl_cons, ih, toPolyZ_mul, toPolyZ_pow, List.map_cons, List.prod_cons]
      ring
  rw [gen fs [c]]
  simp [toPolyZ_cons, toPolyZ_nil]

/-- **product check**: what the driver accepts is an identity in ℤ[X] -/
theorem C05_product_sound (f : List Int) (c : ℤ) (fs : List (List Int × ℕ))
    (h : zTrim (LP.Driver.zProduct c fs) = zTrim f) :
    toPolyZ f = C c * (fs.map (fun fm => toPolyZ fm.1 ^ fm.2)).prod := by
  rw [← toPolyZ_product, ← toPolyZ_trim f, ← h, toPolyZ_trim]

end Factor

namespace QPoly

/-- **square-freeness certificate**: a verified Bezout identity between q and q' makes q separable, hence square-free -/
theorem C05_sqfree_cert_sound (q : QPoly) (h : coprimeCert q (QPoly.derivative q) = true) :
    Squarefree (toPoly q) := by
  have hc := C03_coprimeCert_sound q (QPoly.derivative q) h
  rw [toPoly_derivative] at hc
  exact (show (toPoly q).Separable from hc).squarefree

end QPoly
end LP
