import LP.Props.C16
import LP.Props.C16Fm
#print axioms LP.Infer.C16_complete_square
#print axioms LP.Infer.C16_summand_le
#print axioms LP.Infer.C16_between_roots
#print axioms LP.Infer.C16_between_roots_strict
#print axioms LP.Infer.C16_projection
#print axioms LP.Infer.C16_no_solution
#print axioms LP.Infer.C16_fm_elim
#print axioms LP.Infer.C16_fm_lt
#print axioms LP.Infer.C16_fm_le
#print axioms LP.Infer.C16_fm_eq
#print axioms LP.Infer.C16_fmCond_table
#print axioms LP.Infer.C16_fm_sound
#print axioms LP.Infer.C16_normCons_sound
