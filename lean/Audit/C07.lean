import LP.Props.C07
import LP.Props.C07Exact
import LP.Props.C07Inv
#print axioms LP.ZAlg.image_encloses
#print axioms LP.ZAlg.C07_select_sound
#print axioms LP.C07_cmp
#print axioms LP.C07_cmp_rat
#print axioms LP.C07_floor
#print axioms LP.Alg.sgn_sound
#print axioms LP.Alg.valid_sound
#print axioms LP.Alg.refine_sound
#print axioms LP.ZAlg.eliminant_vanishes
#print axioms LP.ZAlg.selectLoop_spec
#print axioms LP.ZAlg.C07_result_exact
#print axioms LP.ZAlg.C07_opEq_sound
#print axioms LP.ZAlg.neg_sound
#print axioms LP.ZAlg.inv_sound
#print axioms LP.ZAlg.C07_sub_exact
#print axioms LP.ZAlg.C07_div_exact
#print axioms LP.ZAlg.isRootN_sound
