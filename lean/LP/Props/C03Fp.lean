/-
  C03 / C05 over Z_p — the list arithmetic modulo p used by the validators is the arithmetic of (Z/p)[X]
  (`toPolyF_add`, `toPolyF_smul`, `toPolyF_mul`, `toPolyF_norm`), and an accepted Bezout certificate proves coprimality
  there for prime p (`FPoly.coprimeCert_sound`): the certificate `u*a + v*b` normalises to a single non-zero residue, which
  is a unit of the field.  Used for the gcd / extended gcd over Z_p (C03: coprime cofactors) and for square-freeness and
  pairwise coprimality of factors over Z_p (C05).
-/
import LP.Props.C14Eval
import Mathlib.Algebra.Polynomial.Coeff
import Mathlib.RingTheory.Coprime.Basic
import Mathlib.Tactic.Ring
import Mathlib.Algebra.Field.ZMod

namespace LP
namespace FPoly
open Polynomial

theorem toPolyF_nil (p : Nat) : toPolyF p [] = 0 := rfl
theorem toPolyF_cons (p : Nat) (c : Int) (q : FPoly) : toPolyF p (c :: q) = C ((c : Int) : ZMod p) + X * toPolyF p q := rfl

theorem cast_red (p : Nat) (c : Int) : ((red p c : Int) : ZMod p) = ((c : Int) : ZMod p) := by
  unfold red; rw [ZMod.intCast_mod]

theorem toPolyF_map_red (p : Nat) (q : FPoly) : toPolyF p (q.map (red p)) = toPolyF p q := by
  induction q with
  | nil => rfl
  | cons a q ih => rw [List.map_cons, toPolyF_cons, toPolyF_cons, ih, cast_red]

theorem toPolyF_add (p : Nat) (a b : FPoly) : toPolyF p (add p a b) = toPolyF p a + toPolyF p b := by
  induction a generalizing b with
  | nil => simp [add, toPolyF_nil, toPolyF_map_red]
  | cons x a ih =>
    cases b with
    | nil =>
      have : add p (x :: a) [] = (x :: a).map (red p) := rfl
      rw [this, toPolyF_map_red, toPolyF_nil, add_zero]
    | cons y b =>
      simp only [add, toPolyF_cons, ih, cast_red]
      push_cast
      rw [map_add]
      ring

theorem toPolyF_smul (p : Nat) (c : Int) (q : FPoly) : toPolyF p (smul p c q) = C ((c : Int) : ZMod p) * toPolyF p q := by
  induction q with
  | nil => simp [smul, toPolyF_nil]
  | cons a q ih =>
    have : smul p c (a :: q) = red p (c * a) :: smul p c q := rfl
    rw [this, toPolyF_cons, toPolyF_cons, ih, cast_red]
    push_cast
    rw [map_mul]
    ring

theorem toPolyF_shift_one (p : Nat) (q : FPoly) : toPolyF p (shift 1 q) = X * toPolyF p q := by
  show toPolyF p ((0 : Int) :: q) = _
  rw [toPolyF_cons]; simp

theorem toPolyF_mul (p : Nat) (a b : FPoly) : toPolyF p (mul p a b) = toPolyF p a * toPolyF p b := by
  induction a with
  | nil => simp [mul, toPolyF_nil]
  | cons x a ih =>
    simp only [mul, toPolyF_add, toPolyF_smul, toPolyF_shift_one, ih, toPolyF_cons]
    ring

theorem toPolyF_append_zero (p : Nat) (q : FPoly) : toPolyF p (q ++ [0]) = toPolyF p q := by
  induction q with
  | nil => simp [toPolyF_cons, toPolyF_nil]
  | cons a q ih => rw [List.cons_append, toPolyF_cons, toPolyF_cons, ih]

theorem toPolyF_trim (p : Nat) (q : FPoly) : toPolyF p (trim q) = toPolyF p q := by
  unfold trim
  have gen : ∀ r : List Int, toPolyF p ((r.dropWhile (· = 0)).reverse) = toPolyF p r.reverse := by
    intro r
    induction r with
    | nil => rfl
    | cons a r ih =>
      by_cases h : a = 0
      · rw [List.dropWhile_cons_of_pos (by simpa using h), ih, List.reverse_cons, h, toPolyF_append_zero]
      · rw [List.dropWhile_cons_of_neg (by simpa using h)]
  have := gen q.reverse
  rwa [List.reverse_reverse] at this

theorem toPolyF_norm (p : Nat) (q : FPoly) : toPolyF p (norm p q) = toPolyF p q := by
  unfold norm; rw [toPolyF_trim, toPolyF_map_red]

/-- a normalised list of length one is a non-zero constant of Z/p -/
theorem norm_single_ne_zero (p : Nat) (hp : 0 < p) (q : FPoly) (c : Int) (h : norm p q = [c]) : ((c : Int) : ZMod p) ≠ 0 := by
  unfold norm trim at h
  have h2 : (q.map (red p)).reverse.dropWhile (· = 0) = [c] := by
    have := congrArg List.reverse h
    simpa using this
  have hd : ∀ l : List Int, ∀ x, (l.dropWhile (· = 0)).head? = some x → x ≠ 0 ∧ x ∈ l := by
    intro l
    induction l with
    | nil => intro x hx; simp at hx
    | cons a l ih =>
      intro x hx
      by_cases ha : a = 0
      · rw [List.dropWhile_cons_of_pos (by simpa using ha)] at hx
        exact ⟨(ih x hx).1, List.mem_cons_of_mem _ (ih x hx).2⟩
      · rw [List.dropWhile_cons_of_neg (by simpa using ha)] at hx
        simp only [List.head?_cons, Option.some.injEq] at hx
        rw [← hx]; exact ⟨ha, by simp⟩
  obtain ⟨hne, hmem⟩ := hd (q.map (red p)).reverse c (by rw [h2]; rfl)
  rw [List.mem_reverse, List.mem_map] at hmem
  obtain ⟨y, _, hy⟩ := hmem
  have hp' : (0 : Int) < p := by exact_mod_cast hp
  have hr : 0 ≤ c ∧ c < p := by
    rw [← hy]; unfold red
    exact ⟨Int.emod_nonneg _ (by omega), Int.emod_lt_of_pos _ hp'⟩
  intro h0
  have hd : (p : Int) ∣ c := (ZMod.intCast_zmod_eq_zero_iff_dvd _ p).1 h0
  obtain ⟨k, hk⟩ := hd
  have : k = 0 := by
    rcases lt_trichotomy k 0 with hk0 | hk0 | hk0
    · have : (p : Int) * k < 0 := Int.mul_neg_of_pos_of_neg hp' hk0
      omega
    · exact hk0
    · have : (p : Int) * k ≥ p * 1 := Int.mul_le_mul_of_nonneg_left (by omega) (by omega)
      omega
  rw [this] at hk; simp at hk; exact hne hk

/-- **the Bezout certificate over Z_p is sound**: an accepted certificate proves coprimality in (Z/p)[X], p prime -/
theorem coprimeCert_sound (p : Nat) [hp : Fact p.Prime] (a b : FPoly) (h : coprimeCert p a b = true) :
    IsCoprime (toPolyF p a) (toPolyF p b) := by
  unfold coprimeCert at h
  simp only [decide_eq_true_eq] at h
  obtain ⟨c, hc⟩ := List.length_eq_one_iff.1 h
  have hne := norm_single_ne_zero p hp.out.pos _ c hc
  have hval : toPolyF p (xgcd p a b).2.1 * toPolyF p a + toPolyF p (xgcd p a b).2.2 * toPolyF p b = C ((c : Int) : ZMod p) := by
    have := congrArg (toPolyF p) hc
    rw [toPolyF_norm, toPolyF_add, toPolyF_mul, toPolyF_mul, toPolyF_cons, toPolyF_nil] at this
    simpa using this
  refine ⟨C (((c : Int) : ZMod p))⁻¹ * toPolyF p (xgcd p a b).2.1, C (((c : Int) : ZMod p))⁻¹ * toPolyF p (xgcd p a b).2.2, ?_⟩
  calc C (((c : Int) : ZMod p))⁻¹ * toPolyF p (xgcd p a b).2.1 * toPolyF p a +
        C (((c : Int) : ZMod p))⁻¹ * toPolyF p (xgcd p a b).2.2 * toPolyF p b
      = C (((c : Int) : ZMod p))⁻¹ * (toPolyF p (xgcd p a b).2.1 * toPolyF p a + toPolyF p (xgcd p a b).2.2 * toPolyF p b) := by ring
    _ = C (((c : Int) : ZMod p))⁻¹ * C ((c : Int) : ZMod p) := by rw [hval]
    _ = 1 := by rw [← map_mul, inv_mul_cancel₀ hne, map_one]

end FPoly
end LP
