/-
  C11 — `Eval.rootsUnder` (the reference the library's `lp_polynomial_roots_isolate` is compared with) returns
  exactly the distinct real roots of the specialised polynomial, in increasing order, each as a valid algebraic
  number.  No assumption is left: completeness of the candidates comes from `resultant_vanishes`.
-/
import LP.Props.C11
import LP.Props.Elim
import Mathlib.Topology.Algebra.MvPolynomial

namespace LP
open QPoly MPoly

/-- every real root of `p` lies in a cell; every cell holds exactly one root; cells are sorted -/
structure IsolatesAll (p : QPoly) (L : List Cell) : Prop where
  complete : ∀ x : ℝ, evalR p x = 0 → ∃ c ∈ L, c.memR x
  unique : ∀ c ∈ L, ∃! x, c.memR x ∧ evalR p x = 0
  sorted : L.Pairwise (fun c d => ∀ x y, c.memR x → d.memR y → x < y)

theorem realRoots_isolates (p : QPoly) (L : List Cell) (h : realRoots p = some L) : IsolatesAll p L := by
  unfold realRoots at h
  cases hs : sqfreePart p with
  | none => rw [hs] at h; simp at h
  | some s =>
    rw [hs] at h
    simp only [Option.bind_some] at h
    split_ifs at h with hz
    have hz' : isZero s = false := by simpa using hz
    unfold isolateAll at h
    have hB := rootBound_pos s
    have hlt : -rootBound s < rootBound s := by linarith
    have hI := isolateOpen_sound s _ _ L hlt h
    refine ⟨?_, ?_, hI.sorted⟩
    · intro x hx
      have hx' := (sqfreePart_sound p s hs x).1 hx
      have hb := rootBound_sound s hz' x hx'
      exact hI.complete x (by push_cast; exact hb.1) hb.2 hx'
    · intro c hc
      obtain ⟨x, ⟨h1, h2⟩, hu⟩ := hI.unique c hc
      exact ⟨x, ⟨h1, (sqfreePart_sound p s hs x).2 h2⟩, fun y hy => hu y ⟨hy.1, (sqfreePart_sound p s hs y).1 hy.2⟩⟩

namespace Eval

/-- the specialised polynomial as a function of the main variable -/
noncomputable def specR (p : MPoly) (ν : ℕ → ℝ) (y : ℕ) (ρ : ℝ) : ℝ := evalRealM p (Function.update ν y ρ)

theorem continuous_specR (p : MPoly) (ν : ℕ → ℝ) (y : ℕ) : Continuous (specR p ν y) := by
  unfold specR
  have h1 : Continuous (fun ρ : ℝ => Function.update ν y ρ) := continuous_const.update y continuous_id
  have h2 : Continuous (fun μ : ℕ → ℝ => evalRealM p μ) := by
    have : (fun μ : ℕ → ℝ => evalRealM p μ) = fun μ => MPoly.evalAt μ p := by
      funext μ; exact evalRealM_eq_evalAt p μ
    rw [this]
    unfold MPoly.evalAt
    exact MvPolynomial.continuous_eval _
  exact h2.comp h1

theorem lookup_cons_ne (a : Asg) (y : ℕ) (z : ZAlg) (x : ℕ) (h : x ≠ y) : lookup ((y, z) :: a) x = lookup a x := by
  unfold lookup
  rw [List.find?_cons_of_neg]
  simpa using fun h' => h h'.symm

/-- extending the assignment by the main variable -/
theorem asgDen_cons (a : Asg) (ν : ℕ → ℝ) (y : ℕ) (z : ZAlg) (ρ : ℝ) (hden : AsgDen a ν) (hya : ∀ xz ∈ a, xz.1 ≠ y)
    (hv : z.a.Valid) (hz : z.a.Den ρ) : AsgDen ((y, z) :: a) (Function.update ν y ρ) := by
  constructor
  · intro xz hxz
    rw [List.mem_cons] at hxz
    rcases hxz with rfl | hxz
    · simpa using ⟨hv, hz⟩
    · rw [Function.update_of_ne (hya xz hxz)]; exact hden.1 xz hxz
  · intro x hx
    by_cases hxy : x = y
    · subst hxy; simp [lookup] at hx
    · rw [lookup_cons_ne a y z x hxy] at hx
      rw [Function.update_of_ne hxy]; exact hden.2 x hx

theorem hroots_cons (a : Asg) (ν : ℕ → ℝ) (y : ℕ) (z : ZAlg) (ρ : ℝ)
    (hroots : ∀ xz ∈ a, evalR (ZAlg.toQ xz.2.f) (ν xz.1) = 0) (hya : ∀ xz ∈ a, xz.1 ≠ y)
    (hz : evalR (ZAlg.toQ z.f) ρ = 0) :
    ∀ xz ∈ ((y, z) :: a), evalR (ZAlg.toQ xz.2.f) (Function.update ν y ρ xz.1) = 0 := by
  intro xz hxz
  rw [List.mem_cons] at hxz
  rcases hxz with rfl | hxz
  · simpa using hz
  · rw [Function.update_of_ne (hya xz hxz)]; exact hroots xz hxz

theorem ofRat_root (q : ℚ) : evalR (ZAlg.toQ (ZAlg.ofRat q).f) (q : ℝ) = 0 := by
  show evalR (ZAlg.toQ [-q.num, (q.den : Int)]) (q : ℝ) = 0
  simp only [ZAlg.toQ, List.map_cons, List.map_nil, evalR_cons, evalR_nil]
  have h : (q : ℝ) = (q.num : ℝ) / (q.den : ℝ) := by
    have := Rat.cast_def (K := ℝ) q; simpa using this
  have hd : (q.den : ℝ) ≠ 0 := by exact_mod_cast q.den_nz
  rw [h]; push_cast; field_simp; ring

/-- exact sign of the specialised polynomial at a rational point -/
theorem sign_at_rat (p : MPoly) (a : Asg) (ν : ℕ → ℝ) (y : ℕ) (q : ℚ) (s : Int) (hden : AsgDen a ν)
    (hroots : ∀ xz ∈ a, evalR (ZAlg.toQ xz.2.f) (ν xz.1) = 0) (hya : ∀ xz ∈ a, xz.1 ≠ y)
    (hzp : ∀ t ∈ p, ∀ pr ∈ t.1, pr.1 ≠ zVar) (hza : ∀ xz ∈ a, xz.1 ≠ zVar) (hyz : y ≠ zVar)
    (h : exactSign p ((y, ZAlg.ofRat q) :: a) = some s) : SignIs s (specR p ν y (q : ℝ)) := by
  apply C10_sign_exact p _ _ s (asgDen_cons a ν y (ZAlg.ofRat q) (q : ℝ) hden hya (Alg.valid_rat q) (show (ZAlg.ofRat q).a.Den (q : ℝ) from rfl))
    (hroots_cons a ν y _ _ hroots hya (ofRat_root q)) hzp _ h
  intro xz hxz
  rw [List.mem_cons] at hxz
  rcases hxz with rfl | hxz
  · exact hyz
  · exact hza xz hxz

/-- **every root of the specialised polynomial is a root of the eliminant** -/
theorem elimY_root (p : MPoly) (y : ℕ) (a : Asg) (ν : ℕ → ℝ) (ρ : ℝ)
    (hroots : ∀ xz ∈ a, evalR (ZAlg.toQ xz.2.f) (ν xz.1) = 0) (hya : ∀ xz ∈ a, xz.1 ≠ y)
    (hne : elimY p y a ≠ []) (h0 : specR p ν y ρ = 0) : evalR (ZAlg.toQ (elimY p y a)) ρ = 0 := by
  set ν' := Function.update ν y ρ with hν'
  have hy : ν' y = ρ := by rw [hν']; simp
  have hroots' : ∀ xz ∈ a, evalR (ZAlg.toQ xz.2.f) (ν' xz.1) = 0 := by
    intro xz hxz
    rw [hν', Function.update_of_ne (hya xz hxz)]; exact hroots xz hxz
  have hA0 : MPoly.evalAt ν' p = 0 := by rw [← evalRealM_eq_evalAt]; exact h0
  have hfold := elim_fold_vanishes ν' a _ hroots' hA0
  unfold elimY at hne ⊢
  simp only at hne ⊢
  by_cases hu : ZAlg.univariateIn y (a.foldl (fun A xv =>
        if MPoly.degreeIn xv.1 A = 0 then A
        else resultantSpec none xv.1 (ZAlg.uni xv.1 xv.2.f) A) p) = true
  · rw [← hy, MPoly.evalAt_dense ν' y _ hu]; exact hfold
  · exfalso; apply hne
    unfold ZAlg.dense
    rw [if_neg hu]

/-- soundness of the root test on one candidate cell -/
theorem isRootAt_sound (p : MPoly) (y : ℕ) (a : Asg) (ν : ℕ → ℝ) (GZ : List Int) (G : QPoly) (cap : ℕ) (c : Cell)
    (b : Bool) (x : ℝ)
    (hden : AsgDen a ν) (hroots : ∀ xz ∈ a, evalR (ZAlg.toQ xz.2.f) (ν xz.1) = 0) (hya : ∀ xz ∈ a, xz.1 ≠ y)
    (hzp : ∀ t ∈ p, ∀ pr ∈ t.1, pr.1 ≠ zVar) (hza : ∀ xz ∈ a, xz.1 ≠ zVar) (hyz : y ≠ zVar)
    (hsame : ∀ r, evalR (ZAlg.toQ GZ) r = 0 ↔ evalR G r = 0)
    (hcand : ∀ r, specR p ν y r = 0 → evalR G r = 0)
    (hx : c.memR x ∧ evalR G x = 0) (hxu : ∀ r, c.memR r ∧ evalR G r = 0 → r = x)
    (h : isRootAt p y a GZ G cap c = some b) : (b = true ↔ specR p ν y x = 0) := by
  have signIs_zero : ∀ (s : Int) (v : ℝ), SignIs s v → ((s == 0) = true ↔ v = 0) := by
    intro s v hs
    rcases hs with ⟨rfl, hv⟩ | ⟨rfl, hv⟩ | ⟨rfl, hv⟩
    · simp; exact ne_of_gt hv
    · simp; exact ne_of_lt hv
    · simp [hv]
  cases c with
  | pt q =>
    have hxq : x = (q : ℝ) := hx.1
    rw [isRootAt] at h
    cases hs : exactSign p ((y, ZAlg.ofRat q) :: a) with
    | none => rw [hs] at h; simp at h
    | some s =>
      rw [hs] at h
      simp only [Option.map_some, Option.some.injEq] at h
      have := sign_at_rat p a ν y q s hden hroots hya hzp hza hyz hs
      rw [← h, hxq]; exact signIs_zero s _ this
  | iv l u =>
    obtain ⟨⟨hl, hu⟩, hG⟩ := hx
    rw [isRootAt] at h
    cases hsl : exactSign p ((y, ZAlg.ofRat l) :: a) with
    | none => rw [hsl] at h; simp at h
    | some sl =>
      cases hsu : exactSign p ((y, ZAlg.ofRat u) :: a) with
      | none => rw [hsl, hsu] at h; simp at h
      | some su =>
        rw [hsl, hsu] at h
        simp only at h
        have h1 := sign_at_rat p a ν y l sl hden hroots hya hzp hza hyz hsl
        have h2 := sign_at_rat p a ν y u su hden hroots hya hzp hza hyz hsu
        by_cases hch : sl * su < 0
        · rw [if_pos hch] at h
          simp only [Option.some.injEq] at h
          subst h
          simp only [true_iff]
          have hprod : specR p ν y (l : ℝ) * specR p ν y (u : ℝ) < 0 := by
            rcases h1 with ⟨rfl, v1⟩ | ⟨rfl, v1⟩ | ⟨rfl, v1⟩ <;> rcases h2 with ⟨rfl, v2⟩ | ⟨rfl, v2⟩ | ⟨rfl, v2⟩ <;>
              first
                | (exfalso; revert hch; decide)
                | exact mul_neg_of_pos_of_neg v1 v2
                | exact mul_neg_of_neg_of_pos v1 v2
          apply C11_sign_change_root (specR p ν y) l u x (lt_trans hl hu) (continuous_specR p ν y).continuousOn hprod
          intro r hr1 hr2 hr0
          exact hxu r ⟨⟨hr1, hr2⟩, hcand r hr0⟩
        · rw [if_neg hch] at h
          -- the candidate as an algebraic number
          have hvalid : (Alg.root G l u).Valid :=
            ⟨x, ⟨hl, hu, hG⟩, fun r hr => hxu r ⟨⟨hr.1, hr.2.1⟩, hr.2.2⟩⟩
          have hdc : AsgDen ((y, (⟨GZ, .root G l u⟩ : ZAlg)) :: a) (Function.update ν y x) :=
            asgDen_cons a ν y _ x hden hya hvalid ⟨hl, hu, hG⟩
          cases hsg : signLoop p 40 ((y, (⟨GZ, .root G l u⟩ : ZAlg)) :: a) (some [1]) with
          | some s =>
            rw [hsg] at h
            simp only [Option.some.injEq] at h
            have := C10_sign_interval_only p _ _ s 40 hdc hsg
            rw [← h]; exact signIs_zero s _ this
          | none =>
            rw [hsg] at h
            simp only at h
            split_ifs at h with hcap
            cases hes : exactSign p ((y, (⟨GZ, .root G l u⟩ : ZAlg)) :: a) with
            | none => rw [hes] at h; simp at h
            | some s =>
              rw [hes] at h
              simp only [Option.map_some, Option.some.injEq] at h
              have hr' := hroots_cons a ν y (⟨GZ, .root G l u⟩ : ZAlg) x hroots hya ((hsame x).2 hG)
              have := C10_sign_exact p _ _ s hdc hr' hzp (by
                intro xz hxz
                rw [List.mem_cons] at hxz
                rcases hxz with rfl | hxz
                · exact hyz
                · exact hza xz hxz) hes
              rw [← h]; exact signIs_zero s _ this

/-- the accepted candidates, as reals -/
theorem filter_cells (p : MPoly) (y : ℕ) (a : Asg) (ν : ℕ → ℝ) (GZ : List Int) (G : QPoly) (cap : ℕ)
    (hden : AsgDen a ν) (hroots : ∀ xz ∈ a, evalR (ZAlg.toQ xz.2.f) (ν xz.1) = 0) (hya : ∀ xz ∈ a, xz.1 ≠ y)
    (hzp : ∀ t ∈ p, ∀ pr ∈ t.1, pr.1 ≠ zVar) (hza : ∀ xz ∈ a, xz.1 ≠ zVar) (hyz : y ≠ zVar)
    (hsame : ∀ r, evalR (ZAlg.toQ GZ) r = 0 ↔ evalR G r = 0)
    (hcand : ∀ r, specR p ν y r = 0 → evalR G r = 0) :
    ∀ (cells : List Cell) (l : List (Bool × Alg)),
      (∀ c ∈ cells, ∃! x, c.memR x ∧ evalR G x = 0) →
      cells.Pairwise (fun c d => ∀ x y, c.memR x → d.memR y → x < y) →
      cells.mapM (fun c => (isRootAt p y a GZ G cap c).map (fun b => (b, cellAlg G c))) = some l →
      ∃ rs : List ℝ, List.Forall₂ (fun (al : Alg) (r : ℝ) => al.Valid ∧ al.Den r) ((l.filter (·.1)).map (·.2)) rs ∧
        rs.Pairwise (· < ·) ∧
        (∀ r, r ∈ rs ↔ (∃ c ∈ cells, c.memR r ∧ evalR G r = 0) ∧ specR p ν y r = 0) := by
  intro cells
  induction cells with
  | nil =>
    intro l _ _ h
    simp only [List.mapM_nil, Option.pure_def, Option.some.injEq] at h
    subst h
    exact ⟨[], List.Forall₂.nil, List.Pairwise.nil, by simp⟩
  | cons c cells ih =>
    intro l hu hs h
    rw [List.mapM_cons] at h
    cases hb : isRootAt p y a GZ G cap c with
    | none => rw [hb] at h; simp at h
    | some b =>
      rw [hb] at h
      cases hrest : cells.mapM (fun c => (isRootAt p y a GZ G cap c).map (fun b => (b, cellAlg G c))) with
      | none => rw [hrest] at h; simp at h
      | some l' =>
        rw [hrest] at h
        simp only [Option.map_some, Option.pure_def, Option.bind_eq_bind, Option.bind_some, Option.some.injEq] at h
        subst h
        rw [List.pairwise_cons] at hs
        obtain ⟨rs, hf, hpw, hmem⟩ := ih l' (fun d hd => hu d (List.mem_cons_of_mem _ hd)) hs.2 hrest
        obtain ⟨x, hx, hxu⟩ := hu c List.mem_cons_self
        have hiff := isRootAt_sound p y a ν GZ G cap c b x hden hroots hya hzp hza hyz hsame hcand hx hxu hb
        have hden_c : (cellAlg G c).Valid ∧ (cellAlg G c).Den x := by
          cases c with
          | pt q => exact ⟨Alg.valid_rat q, hx.1⟩
          | iv l u =>
            exact ⟨⟨x, ⟨hx.1.1, hx.1.2, hx.2⟩, fun r hr => hxu r ⟨⟨hr.1, hr.2.1⟩, hr.2.2⟩⟩, ⟨hx.1.1, hx.1.2, hx.2⟩⟩
        cases b with
        | true =>
          have hx0 : specR p ν y x = 0 := hiff.1 rfl
          refine ⟨x :: rs, ?_, ?_, ?_⟩
          · simp only [List.filter_cons_of_pos, List.map_cons]
            exact List.Forall₂.cons hden_c hf
          · rw [List.pairwise_cons]
            refine ⟨?_, hpw⟩
            intro r hr
            obtain ⟨⟨d, hd, hdr, _⟩, _⟩ := (hmem r).1 hr
            exact hs.1 d hd x r hx.1 hdr
          · intro r
            rw [List.mem_cons]
            constructor
            · rintro (rfl | hr)
              · exact ⟨⟨c, List.mem_cons_self, hx⟩, hx0⟩
              · obtain ⟨⟨d, hd, hdr⟩, h0⟩ := (hmem r).1 hr
                exact ⟨⟨d, List.mem_cons_of_mem _ hd, hdr⟩, h0⟩
            · rintro ⟨⟨d, hd, hdr⟩, h0⟩
              rw [List.mem_cons] at hd
              rcases hd with rfl | hd
              · left; exact hxu r hdr
              · right; exact (hmem r).2 ⟨⟨d, hd, hdr⟩, h0⟩
        | false =>
          have hx0 : specR p ν y x ≠ 0 := fun h0 => by have := hiff.2 h0; cases this
          refine ⟨rs, ?_, hpw, ?_⟩
          · simpa using hf
          · intro r
            rw [hmem r]
            constructor
            · rintro ⟨⟨d, hd, hdr⟩, h0⟩
              exact ⟨⟨d, List.mem_cons_of_mem _ hd, hdr⟩, h0⟩
            · rintro ⟨⟨d, hd, hdr⟩, h0⟩
              rw [List.mem_cons] at hd
              rcases hd with rfl | hd
              · exfalso; rw [hxu r hdr] at h0; exact hx0 h0
              · exact ⟨⟨d, hd, hdr⟩, h0⟩

/-- a polynomial with a non-zero coefficient does not vanish everywhere -/
theorem exists_nonroot (cs : List Int) (h : cs.all (· = 0) = false) : ∃ r : ℝ, evalR (ZAlg.toQ cs) r ≠ 0 := by
  by_contra hall
  push Not at hall
  have hz : toPolyR (ZAlg.toQ cs) = 0 := by
    apply Polynomial.funext
    intro r
    simpa [evalR] using hall r
  have : ∀ c ∈ cs, c = 0 := by
    intro c hc
    obtain ⟨i, hi, rfl⟩ := List.getElem_of_mem hc
    have := coeff_toPolyR (ZAlg.toQ cs) i
    rw [hz, Polynomial.coeff_zero] at this
    have hget : (ZAlg.toQ cs).getD i 0 = ((cs[i] : Int) : ℚ) := by
      unfold ZAlg.toQ
      rw [List.getD_eq_getElem?_getD, List.getElem?_map, List.getElem?_eq_getElem hi]
      rfl
    rw [hget] at this
    have h0 : ((cs[i] : ℤ) : ℝ) = 0 := by exact_mod_cast this.symm
    exact_mod_cast h0
  have : cs.all (· = 0) = true := by
    rw [List.all_eq_true]; intro c hc; simpa using this c hc
  rw [this] at h; cases h

/-- **C11**: a successful `rootsUnder` (for a polynomial that does not vanish identically under the assignment)
    lists valid algebraic numbers denoting exactly the distinct real roots of the specialised polynomial, in
    strictly increasing order. -/
theorem C11_rootsUnder_exact (p : MPoly) (y : ℕ) (a : Asg) (ν : ℕ → ℝ) (cap : ℕ) (L : List Alg)
    (hden : AsgDen a ν) (hroots : ∀ xz ∈ a, evalR (ZAlg.toQ xz.2.f) (ν xz.1) = 0) (hya : ∀ xz ∈ a, xz.1 ≠ y)
    (hzp : ∀ t ∈ p, ∀ pr ∈ t.1, pr.1 ≠ zVar) (hza : ∀ xz ∈ a, xz.1 ≠ zVar) (hyz : y ≠ zVar)
    (hnz : identicallyZero p y a = some false)
    (h : rootsUnder p y a cap = some L) :
    ∃ rs : List ℝ, List.Forall₂ (fun (al : Alg) (r : ℝ) => al.Valid ∧ al.Den r) L rs ∧
      Enumerates rs (fun r => specR p ν y r = 0) := by
  unfold rootsUnder at h
  rw [hnz] at h
  simp only at h
  split_ifs at h with hall
  have hall' : (elimY p y a).all (· = 0) = false := by simpa using hall
  have hne : elimY p y a ≠ [] := by intro h0; rw [h0] at hall'; simp at hall'
  cases hsq : sqfreePart (ZAlg.toQ (elimY p y a)) with
  | none => rw [hsq] at h; simp at h
  | some G =>
    rw [hsq] at h
    simp only at h
    have hsame := sqfreePart_sound _ G hsq
    have hcand : ∀ r, specR p ν y r = 0 → evalR G r = 0 :=
      fun r hr => (hsame r).1 (elimY_root p y a ν r hroots hya hne hr)
    by_cases hlen : G.length ≤ 1
    · rw [if_pos hlen] at h
      simp only [Option.some.injEq] at h
      subst h
      refine ⟨[], List.Forall₂.nil, List.Pairwise.nil, fun r => ?_⟩
      simp only [List.not_mem_nil, false_iff]
      intro hr
      -- G is a constant with the same roots as a non-zero polynomial, hence a non-zero constant
      obtain ⟨r0, hr0⟩ := exists_nonroot _ hall'
      have hG0 : evalR G r0 ≠ 0 := fun h0 => hr0 ((hsame r0).2 h0)
      have hconst : ∀ s t, evalR G s = evalR G t := by
        intro s t
        cases G with
        | nil => simp [evalR_nil]
        | cons c G' =>
          cases G' with
          | nil => simp [evalR_cons, evalR_nil]
          | cons d G'' => simp at hlen
      exact hG0 (by rw [hconst r0 r]; exact hcand r hr)
    · rw [if_neg hlen] at h
      cases hrr : realRoots G with
      | none => rw [hrr] at h; simp at h
      | some cells =>
        rw [hrr] at h
        simp only at h
        have hI := realRoots_isolates G cells hrr
        cases hm : cells.mapM (fun c => (isRootAt p y a (elimY p y a) G cap c).map (fun b => (b, cellAlg G c))) with
        | none => rw [hm] at h; simp at h
        | some l =>
          rw [hm] at h
          simp only [Option.map_some, Option.some.injEq] at h
          subst h
          obtain ⟨rs, hf, hpw, hmem⟩ := filter_cells p y a ν (elimY p y a) G cap hden hroots hya hzp hza hyz hsame hcand
            cells l hI.unique hI.sorted hm
          refine ⟨rs, hf, hpw, fun r => ?_⟩
          rw [hmem r]
          constructor
          · exact fun h => h.2
          · intro h0
            obtain ⟨c, hc, hcr⟩ := hI.complete r (hcand r h0)
            exact ⟨⟨c, hc, hcr, hcand r h0⟩, h0⟩

end Eval
end LP
