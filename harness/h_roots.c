/* C06 harness: real root isolation, root counting and Sturm sequences of univariate integer polynomials.
 *   roots isolate u:f => n R1 .. Rn
 *   roots count u:f <interval|R> => c
 *   roots sturm u:f => k u:S0 .. u:S(k-1)
 */
#include "halg.h"

static void sb_qint(const lp_rational_interval_t* I) {
  if (I->is_point) { sb_str("["); sb_mpq(&I->a); sb_str("]"); return; }
  sb_str(I->a_open ? "(" : "["); sb_mpq(&I->a); sb_str(","); sb_mpq(&I->b); sb_str(I->b_open ? ")" : "]");
}

static void one_case(void) {
  if (chance(25)) {
    /* a batch of dense polynomials with small coefficients (degree 5-8): isolation only, cheap */
    for (int t = 0; t < 4; ++t) {
      gen_root_poly_dense = 1; lp_upolynomial_t* g = gen_root_poly(8); gen_root_poly_dense = 0;
      size_t d = lp_upolynomial_degree(g), n = 0;
      lp_algebraic_number_t* roots = (lp_algebraic_number_t*)malloc((d + 1) * sizeof(lp_algebraic_number_t));
      sb_begin("roots", "isolate"); sb_sp(); sb_upoly(g); sb_arrow();
      lp_upolynomial_roots_isolate(g, roots, &n);
      sb_sp(); sb_ulong(n);
      for (size_t i = 0; i < n; ++i) { sb_sp(); sb_alg(&roots[i]); }
      sb_emit();
      for (size_t i = 0; i < n; ++i) lp_algebraic_number_destruct(&roots[i]);
      free(roots); lp_upolynomial_delete(g);
    }
    return;
  }
  lp_upolynomial_t* f = gen_root_poly(chance(80) ? 6 : 9);
  unsigned op = rnd(100);
  if (op < 40) {
    size_t d = lp_upolynomial_degree(f), n = 0;
    lp_algebraic_number_t* roots = (lp_algebraic_number_t*)malloc((d + 1) * sizeof(lp_algebraic_number_t));
    sb_begin("roots", "isolate"); sb_sp(); sb_upoly(f); sb_arrow();
    lp_upolynomial_roots_isolate(f, roots, &n);
    sb_sp(); sb_ulong(n);
    for (size_t i = 0; i < n; ++i) { sb_sp(); sb_alg(&roots[i]); }
    sb_emit();
    for (size_t i = 0; i < n; ++i) lp_algebraic_number_destruct(&roots[i]);
    free(roots);
  } else if (op < 85) {
    /* several intervals per polynomial */
    int reps = 1 + rnd(4);
    for (int r = 0; r < reps; ++r) {
      if (chance(12)) {
        sb_begin("roots", "count"); sb_sp(); sb_upoly(f); sb_str(" R"); sb_arrow();
        int c = lp_upolynomial_roots_count(f, 0);
        sb_sp(); sb_long(c); sb_emit();
        continue;
      }
      lp_rational_t a, b; gen_endpoint(&a); gen_endpoint(&b);
      if (lp_rational_cmp(&a, &b) > 0) lp_rational_swap(&a, &b);
      lp_rational_interval_t I;
      if (lp_rational_cmp(&a, &b) == 0) lp_rational_interval_construct_point(&I, &a);
      else lp_rational_interval_construct(&I, &a, chance(50), &b, chance(50));
      sb_begin("roots", "count"); sb_sp(); sb_upoly(f); sb_sp(); sb_qint(&I); sb_arrow();
      int c = lp_upolynomial_roots_count(f, &I);
      sb_sp(); sb_long(c); sb_emit();
      lp_rational_interval_destruct(&I); lp_rational_destruct(&a); lp_rational_destruct(&b);
    }
  } else {
    lp_upolynomial_t** S = 0; size_t n = 0;
    sb_begin("roots", "sturm"); sb_sp(); sb_upoly(f); sb_arrow();
    lp_upolynomial_sturm_sequence(f, &S, &n);
    sb_sp(); sb_ulong(n);
    for (size_t i = 0; i < n; ++i) { sb_sp(); sb_upoly(S[i]); }
    sb_emit();
    for (size_t i = 0; i < n; ++i) lp_upolynomial_delete(S[i]);
    free(S);
  }
  lp_upolynomial_delete(f);
}

int main(int argc, char** argv) {
  uint64_t seed = argc > 1 ? strtoull(argv[1], 0, 10) : 1;
  long n = argc > 2 ? atol(argv[2]) : 1000;
  long only = argc > 3 ? atol(argv[3]) : -1;
  long start = argc > 4 ? atol(argv[4]) : 0;
  lpv_init(); hp_init();
  for (long i = 0; i < n; ++i) {
    if ((only >= 0 && i != only) || i < start) continue;
    lpv_begin_case(seed, i);
    one_case();
  }
  hp_done();
  free(sb_buf);
  return 0;
}
