/-
  The model's partial derivative denotes the derivative of the specialised polynomial in the main variable
  (`hasDerivAt_specR`): the ingredient needed for the soundness of the eliminant-free root isolation (`isoLoopM`).
-/
import LP.Props.C11Roots
import Mathlib.Analysis.Calculus.Deriv.Pow
import Mathlib.Analysis.Calculus.Deriv.Mul
import Mathlib.Analysis.Calculus.Deriv.Add

namespace LP
open MPoly

namespace Eval

theorem monoValR_prod (ν : ℕ → ℝ) (m : Mono) : monoValR ν m = (m.map (fun p => ν p.1 ^ p.2)).prod := by
  unfold monoValR; rw [MPoly.foldl_mul_eq, one_mul]

theorem evalRealM_sum (p : MPoly) (ν : ℕ → ℝ) :
    evalRealM p ν = (p.map (fun t => ((t.2 : ℤ) : ℝ) * monoValR ν t.1)).sum := by
  unfold evalRealM; rw [MPoly.foldl_add_eq (fun t => ((t.2 : ℤ) : ℝ) * monoValR ν t.1), zero_add]

theorem foldl_nat_add (l : List (ℕ × ℕ)) (a : ℕ) : l.foldl (fun acc p => acc + p.2) a = a + (l.map (·.2)).sum := by
  induction l generalizing a with
  | nil => simp
  | cons p l ih => rw [List.foldl_cons, ih, List.map_cons, List.sum_cons]; ring

theorem degreeIn_nil (y : ℕ) : Mono.degreeIn y [] = 0 := rfl

theorem degreeIn_cons (y : ℕ) (pr : ℕ × ℕ) (m : Mono) :
    Mono.degreeIn y (pr :: m) = (if pr.1 = y then pr.2 else 0) + Mono.degreeIn y m := by
  unfold Mono.degreeIn
  rw [foldl_nat_add, foldl_nat_add, List.filter_cons]
  by_cases h : pr.1 = y
  · simp [h]
  · simp [h]

/-- the value of a monomial splits into the power of the main variable and the rest -/
theorem monoVal_split (ν : ℕ → ℝ) (y : ℕ) (ρ : ℝ) (m : Mono) :
    monoValR (Function.update ν y ρ) m = ρ ^ Mono.degreeIn y m * monoValR ν (Mono.without y m) := by
  rw [monoValR_prod, monoValR_prod]
  induction m with
  | nil => simp [degreeIn_nil, Mono.without]
  | cons pr m ih =>
    rw [List.map_cons, List.prod_cons, ih, degreeIn_cons]
    unfold Mono.without at ih ⊢
    rw [List.filter_cons]
    by_cases h : pr.1 = y
    · simp only [h, if_true, Function.update_self, ne_eq, not_true_eq_false, decide_false, Bool.false_eq_true, if_false]
      rw [pow_add]; ring
    · simp only [h, if_false, ne_eq, not_false_eq_true, decide_true, if_true, zero_add, List.map_cons, List.prod_cons]
      rw [Function.update_of_ne h]; ring

/-- the terms of the derivative before normalisation -/
def rawDeriv (p : MPoly) (x : ℕ) : MPoly :=
  p.filterMap (fun t =>
    let d := Mono.degreeIn x t.1
    if d = 0 then none
    else some ((if d = 1 then [] else [(x, d - 1)]) ++ Mono.without x t.1, (d : Int) * t.2))

theorem evalRealM_derivative (p : MPoly) (x : ℕ) (ν : ℕ → ℝ) :
    evalRealM (MPoly.derivative none p x) ν = evalRealM (rawDeriv p x) ν := by
  rw [evalRealM_eq_evalAt, evalRealM_eq_evalAt]
  unfold MPoly.derivative rawDeriv
  rw [MPoly.evalAt_normalize]

theorem without_free (y : ℕ) (m : Mono) : ∀ pr ∈ Mono.without y m, pr.1 ≠ y := by
  intro pr hpr
  simp only [Mono.without, List.mem_filter, decide_eq_true_eq] at hpr
  exact hpr.2

theorem monoValR_update_free (ν : ℕ → ℝ) (y : ℕ) (ρ : ℝ) (m : Mono) (h : ∀ pr ∈ m, pr.1 ≠ y) :
    monoValR (Function.update ν y ρ) m = monoValR ν m := by
  rw [monoValR_prod, monoValR_prod]
  congr 1
  apply List.map_congr_left
  intro pr hpr
  rw [Function.update_of_ne (h pr hpr)]

/-- value of one term of the derivative -/
theorem derivTerm_val (ν : ℕ → ℝ) (y : ℕ) (ρ : ℝ) (m : Mono) (d : ℕ) (hd : d ≠ 0) :
    monoValR (Function.update ν y ρ) ((if d = 1 then [] else [(y, d - 1)]) ++ Mono.without y m) =
      ρ ^ (d - 1) * monoValR ν (Mono.without y m) := by
  rw [monoValR_prod, List.map_append, List.prod_append, ← monoValR_prod, ← monoValR_prod,
    monoValR_update_free ν y ρ _ (without_free y m)]
  congr 1
  by_cases h1 : d = 1
  · subst h1; simp [monoValR_prod]
  · rw [if_neg h1, monoValR_prod]; simp

/-- **the model's derivative is the derivative** of the specialised polynomial in the main variable -/
theorem hasDerivAt_specR (p : MPoly) (ν : ℕ → ℝ) (y : ℕ) (ρ : ℝ) :
    HasDerivAt (specR p ν y) (specR (MPoly.derivative none p y) ν y ρ) ρ := by
  unfold specR
  rw [evalRealM_derivative]
  have hfun : (fun r => evalRealM p (Function.update ν y r)) =
      fun r => (p.map (fun t => ((t.2 : ℤ) : ℝ) * monoValR (Function.update ν y r) t.1)).sum := by
    funext r; exact evalRealM_sum p _
  rw [hfun, evalRealM_sum]
  induction p with
  | nil => simpa [rawDeriv] using hasDerivAt_const ρ (0 : ℝ)
  | cons t p ih =>
    have hterm : HasDerivAt (fun r => ((t.2 : ℤ) : ℝ) * monoValR (Function.update ν y r) t.1)
        (((rawDeriv [t] y).map (fun t' => ((t'.2 : ℤ) : ℝ) * monoValR (Function.update ν y ρ) t'.1)).sum) ρ := by
      have hsplit : (fun r => ((t.2 : ℤ) : ℝ) * monoValR (Function.update ν y r) t.1) =
          fun r => ((t.2 : ℤ) : ℝ) * (r ^ Mono.degreeIn y t.1 * monoValR ν (Mono.without y t.1)) := by
        funext r; rw [monoVal_split]
      rw [hsplit]
      by_cases hd : Mono.degreeIn y t.1 = 0
      · have : rawDeriv [t] y = [] := by simp [rawDeriv, hd]
        rw [this, hd]
        simpa using hasDerivAt_const ρ (((t.2 : ℤ) : ℝ) * (1 * monoValR ν (Mono.without y t.1)))
      · have hr : rawDeriv [t] y = [((if Mono.degreeIn y t.1 = 1 then [] else [(y, Mono.degreeIn y t.1 - 1)]) ++ Mono.without y t.1,
            ((Mono.degreeIn y t.1 : ℕ) : Int) * t.2)] := by simp [rawDeriv, hd]
        rw [hr]
        simp only [List.map_cons, List.map_nil, List.sum_cons, List.sum_nil, add_zero]
        rw [derivTerm_val ν y ρ t.1 _ hd]
        have h1 := (hasDerivAt_pow (Mono.degreeIn y t.1) ρ).mul_const (monoValR ν (Mono.without y t.1))
        have h2 := h1.const_mul ((t.2 : ℤ) : ℝ)
        have hval : ((((Mono.degreeIn y t.1 : ℕ) : Int) * t.2 : Int) : ℝ) * (ρ ^ (Mono.degreeIn y t.1 - 1) * monoValR ν (Mono.without y t.1)) =
            ((t.2 : ℤ) : ℝ) * (((Mono.degreeIn y t.1 : ℕ) : ℝ) * ρ ^ (Mono.degreeIn y t.1 - 1) * monoValR ν (Mono.without y t.1)) := by
          push_cast; ring
        rw [hval]
        exact h2
    have hcons : rawDeriv (t :: p) y = rawDeriv [t] y ++ rawDeriv p y := by
      unfold rawDeriv; rw [← List.filterMap_append]; rfl
    rw [hcons, List.map_append, List.sum_append]
    have hsum : (fun r => ((t :: p).map (fun t => ((t.2 : ℤ) : ℝ) * monoValR (Function.update ν y r) t.1)).sum) =
        fun r => ((t.2 : ℤ) : ℝ) * monoValR (Function.update ν y r) t.1 +
          (p.map (fun t => ((t.2 : ℤ) : ℝ) * monoValR (Function.update ν y r) t.1)).sum := by
      funext r; rw [List.map_cons, List.sum_cons]
    rw [hsum]
    exact hterm.add (ih (by funext r; exact evalRealM_sum p _))

end Eval
end LP
