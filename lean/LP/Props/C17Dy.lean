/-
  C17 (dyadic rationals and rationals) — property theorems over `LP.Model.Scalar`.
-/
import LP.Model.Scalar
import Mathlib.Tactic.Ring
import Mathlib.Tactic.Linarith
import Mathlib.Tactic.FieldSimp
import Mathlib.Tactic.Positivity
import Mathlib.Tactic.Push
import Mathlib.Algebra.Order.Floor.Ring
import Mathlib.Data.Rat.Floor
import Mathlib.Algebra.Order.Field.Basic
import Mathlib.Algebra.Ring.Int.Parity

namespace LP
namespace Dy

theorem toRat_def (q : Dy) : q.toRat = (q.a : ℚ) / (2 : ℚ) ^ q.n := by
  unfold toRat; push_cast; rfl

/-- mathematical reading of `dyadic_rational_is_normalized` -/
def Normalized (q : Dy) : Prop := (q.a = 0 → q.n = 0) ∧ (0 < q.n → q.a % 2 = 1)

theorem isNormalized_iff (q : Dy) : q.isNormalized = true ↔ q.Normalized := by
  unfold isNormalized Normalized
  simp only [decide_eq_true_eq, Bool.or_eq_true, Bool.and_eq_true, Bool.decide_and, ne_eq, Bool.decide_or]
  constructor
  · rintro (h | h | h)
    · exact ⟨fun _ => h.2, fun hn => by omega⟩
    · exact ⟨fun h0 => by omega, fun _ => by omega⟩
    · exact ⟨fun h0 => absurd h0 h.1, fun hn => by omega⟩
  · rintro ⟨h1, h2⟩
    by_cases h0 : q.a = 0
    · left; exact ⟨h0, h1 h0⟩
    · by_cases hn : q.n = 0
      · right; right; exact ⟨h0, hn⟩
      · right; left; have := h2 (by omega); omega

theorem normAux_toRat (a : Int) (n : Nat) : (normAux a n).toRat = (⟨a, n⟩ : Dy).toRat := by
  induction n generalizing a with
  | zero => rfl
  | succ n ih =>
    unfold normAux
    split_ifs with h
    · rw [ih, toRat_def, toRat_def]
      simp only
      have : a = 2 * (a / 2) := by omega
      conv_rhs => rw [this]
      push_cast
      rw [pow_succ]
      field_simp
    · rfl

theorem normAux_normalized (a : Int) (n : Nat) (ha : a ≠ 0) : (normAux a n).Normalized := by
  induction n generalizing a with
  | zero => exact ⟨fun h => rfl, fun h => absurd h (by simp [normAux])⟩
  | succ n ih =>
    unfold normAux
    split_ifs with h
    · exact ih (a / 2) (by omega)
    · exact ⟨fun h0 => absurd h0 ha, fun _ => by simp only; omega⟩

/-- `dyadic_rational_normalize` keeps the value and produces the canonical form. -/
theorem C17_dy_normalize (q : Dy) : q.normalize.toRat = q.toRat ∧ q.normalize.Normalized := by
  unfold normalize
  split_ifs with h
  · constructor
    · rw [toRat_def, toRat_def, h]; simp
    · exact ⟨fun _ => rfl, fun hn => absurd hn (by simp)⟩
  · exact ⟨normAux_toRat _ _, normAux_normalized _ _ h⟩

private theorem two_pow_pos (n : Nat) : (0 : ℚ) < (2 : ℚ) ^ n := by positivity

/-- canonical form: a normalised dyadic is determined by its value. -/
theorem C17_dy_canonical (x y : Dy) (hx : x.Normalized) (hy : y.Normalized)
    (h : x.toRat = y.toRat) : x = y := by
  rw [toRat_def, toRat_def] at h
  have hz : x.a * 2 ^ y.n = y.a * 2 ^ x.n := by
    have := (div_eq_div_iff (two_pow_pos x.n).ne' (two_pow_pos y.n).ne').1 h
    exact_mod_cast this
  obtain ⟨xa, xn⟩ := x
  obtain ⟨ya, yn⟩ := y
  simp only [Normalized] at hx hy hz
  have key : ∀ (a b : Int) (m k : Nat), a * 2 ^ k = b * 2 ^ m → m < k →
      (0 < k → b % 2 = 1) → False := by
    intro a b m k he hlt hb
    have hk : k = m + (k - m) := by omega
    rw [hk, pow_add, ← mul_assoc] at he
    have h2 : (2:Int) ^ m ≠ 0 := by positivity
    have he' : a * 2 ^ (k - m) = b := by
      have := mul_right_cancel₀ h2 (by linarith [he] : a * 2 ^ (k - m) * 2 ^ m = b * 2 ^ m)
      exact this
    have : (2:Int) ∣ b := by
      rw [← he']
      have : k - m = (k - m - 1) + 1 := by omega
      rw [this, pow_succ]
      exact ⟨a * 2 ^ (k - m - 1), by ring⟩
    have := hb (by omega)
    omega
  rcases lt_trichotomy xn yn with hlt | heq | hgt
  · exact (key xa ya xn yn hz hlt hy.2).elim
  · subst heq
    have h2 : (2:Int) ^ xn ≠ 0 := by positivity
    have := mul_right_cancel₀ h2 hz
    subst this; rfl
  · exact (key ya xa yn xn hz.symm hgt hx.2).elim

/-- All arithmetic operations are exact, and return the canonical form. -/
theorem C17_dy_ops (x y : Dy) (b : Int) (k : Nat) :
    ((add x y).toRat = x.toRat + y.toRat ∧ (add x y).Normalized) ∧
    ((sub x y).toRat = x.toRat - y.toRat ∧ (sub x y).Normalized) ∧
    ((mul x y).toRat = x.toRat * y.toRat ∧ (mul x y).Normalized) ∧
    ((addInteger x b).toRat = x.toRat + b ∧ (addInteger x b).Normalized) ∧
    ((div2exp x k).toRat = x.toRat / 2 ^ k ∧ (div2exp x k).Normalized) ∧
    ((ofInt b k).toRat = (b : ℚ) / 2 ^ k ∧ (ofInt b k).Normalized) := by
  have P : ∀ m n : Nat, n ≤ m → (2:ℚ) ^ m = 2 ^ (m - n) * 2 ^ n := by
    intro m n h; rw [← pow_add]; congr 1; omega
  refine ⟨?_, ?_, ?_, ?_, ?_, ?_⟩
  · unfold add
    split_ifs with h1 h2
    · refine ⟨?_, (C17_dy_normalize _).2⟩
      rw [(C17_dy_normalize _).1, toRat_def, toRat_def, toRat_def, h1]
      simp only; push_cast; field_simp
    · refine ⟨?_, (C17_dy_normalize _).2⟩
      rw [(C17_dy_normalize _).1, toRat_def, toRat_def, toRat_def]
      simp only; push_cast
      rw [P x.n y.n (by omega)]; field_simp
    · refine ⟨?_, (C17_dy_normalize _).2⟩
      rw [(C17_dy_normalize _).1, toRat_def, toRat_def, toRat_def]
      simp only; push_cast
      rw [P y.n x.n (by omega)]; field_simp
  · unfold sub
    split_ifs with h1 h2
    · refine ⟨?_, (C17_dy_normalize _).2⟩
      rw [(C17_dy_normalize _).1, toRat_def, toRat_def, toRat_def, h1]
      simp only; push_cast; field_simp
    · refine ⟨?_, (C17_dy_normalize _).2⟩
      rw [(C17_dy_normalize _).1, toRat_def, toRat_def, toRat_def]
      simp only; push_cast
      rw [P x.n y.n (by omega)]; field_simp
    · refine ⟨?_, (C17_dy_normalize _).2⟩
      rw [(C17_dy_normalize _).1, toRat_def, toRat_def, toRat_def]
      simp only; push_cast
      rw [P y.n x.n (by omega)]; field_simp
  · unfold mul
    refine ⟨?_, (C17_dy_normalize _).2⟩
    rw [(C17_dy_normalize _).1, toRat_def, toRat_def, toRat_def]
    simp only; push_cast; rw [pow_add]; field_simp
  · unfold addInteger
    split_ifs with h
    · refine ⟨?_, (C17_dy_normalize _).2⟩
      rw [(C17_dy_normalize _).1, toRat_def, toRat_def]
      simp only; push_cast; field_simp
    · refine ⟨?_, (C17_dy_normalize _).2⟩
      rw [(C17_dy_normalize _).1, toRat_def, toRat_def]
      have : x.n = 0 := by omega
      simp only [this]; push_cast; ring
  · unfold div2exp
    refine ⟨?_, (C17_dy_normalize _).2⟩
    rw [(C17_dy_normalize _).1, toRat_def, toRat_def]
    simp only; rw [pow_add]; field_simp
  · unfold ofInt
    refine ⟨?_, (C17_dy_normalize _).2⟩
    rw [(C17_dy_normalize _).1, toRat_def]

/-- negation, scaling up and powers: exact; canonical when the input is (the C code relies on this,
    it does not re-normalise). -/
theorem C17_dy_ops_nonorm (x : Dy) (k : Nat) (hx : x.Normalized) :
    ((neg x).toRat = -x.toRat ∧ (neg x).Normalized) ∧
    ((mul2exp x k).toRat = x.toRat * 2 ^ k ∧ (mul2exp x k).Normalized) ∧
    ((pow x k).toRat = x.toRat ^ k ∧ (pow x k).Normalized) := by
  obtain ⟨h1, h2⟩ := hx
  refine ⟨⟨?_, ?_⟩, ⟨?_, ?_⟩, ⟨?_, ?_⟩⟩
  · rw [toRat_def, toRat_def]; simp [neg]; ring
  · exact ⟨fun h => h1 (by simpa [neg] using h), fun h => by have := h2 h; simp only [neg]; omega⟩
  · unfold mul2exp
    split_ifs with h
    · rw [toRat_def, toRat_def]; simp only
      have : (2:ℚ) ^ x.n = 2 ^ (x.n - k) * 2 ^ k := by rw [← pow_add]; congr 1; omega
      rw [this]; field_simp
    · rw [toRat_def, toRat_def]; simp only; push_cast
      have : (2:ℚ) ^ k = 2 ^ (k - x.n) * 2 ^ x.n := by rw [← pow_add]; congr 1; omega
      rw [this]; field_simp
  · unfold mul2exp
    split_ifs with h
    · exact ⟨fun h0 => by have := h1 h0; simp only; omega, fun hn => h2 (by simp only at hn; omega)⟩
    · exact ⟨fun _ => rfl, fun hn => absurd hn (by simp)⟩
  · rw [toRat_def, toRat_def]; simp only [pow]; push_cast
    rw [div_pow, ← pow_mul]
  · constructor
    · intro h0
      simp only [pow] at h0 ⊢
      by_cases hk : k = 0
      · subst hk; simp
      · have : x.a = 0 := by
          by_contra hne
          exact (pow_ne_zero k hne) h0
        rw [h1 this]; simp
    · intro hn
      simp only [pow] at hn ⊢
      have hxn : 0 < x.n := Nat.pos_of_mul_pos_right hn |> fun _ => by
        rcases Nat.eq_zero_or_pos x.n with h | h
        · rw [h] at hn; simp at hn
        · exact h
      have hodd := h2 hxn
      have : Odd x.a := Int.odd_iff.2 hodd
      exact Int.odd_iff.1 (this.pow)

/-- comparison is the order of the denoted rationals (whatever the representation). -/
theorem C17_dy_cmp (x y : Dy) : sgnI (cmp x y) = cmpQ x.toRat y.toRat := by
  have hx : ∀ q : Dy, (0 < q.toRat ↔ 0 < q.a) ∧ (q.toRat < 0 ↔ q.a < 0) ∧ (q.toRat = 0 ↔ q.a = 0) := by
    intro q
    rw [toRat_def]
    have hp := two_pow_pos q.n
    refine ⟨?_, ?_, ?_⟩
    · rw [div_pos_iff_of_pos_right hp]; exact_mod_cast Iff.rfl
    · rw [div_lt_iff₀ hp, zero_mul]; exact_mod_cast Iff.rfl
    · rw [div_eq_zero_iff]; simp [hp.ne']
  have P : ∀ m n : Nat, n ≤ m → (2:ℚ) ^ m = 2 ^ (m - n) * 2 ^ n := by
    intro m n h; rw [← pow_add]; congr 1; omega
  have hcmp : ∀ (u v : Int) (m : Nat), (cmpI u v = cmpQ ((u:ℚ) / 2 ^ m) ((v:ℚ) / 2 ^ m)) := by
    intro u v m
    have hp := two_pow_pos m
    unfold cmpI cmpQ
    have e1 : (u:ℚ) / 2 ^ m < (v:ℚ) / 2 ^ m ↔ u < v := by
      rw [div_lt_div_iff_of_pos_right hp]; exact_mod_cast Iff.rfl
    have e2 : (u:ℚ) / 2 ^ m > (v:ℚ) / 2 ^ m ↔ u > v := by
      rw [gt_iff_lt, div_lt_div_iff_of_pos_right hp]; exact_mod_cast Iff.rfl
    simp only [e1, e2]
  have hs : ∀ z : Int, sgnI (cmpI z 0) = cmpI z 0 := by
    intro z; unfold sgnI cmpI; split_ifs <;> simp_all
  have hss : ∀ u v : Int, sgnI (cmpI u v) = cmpI u v := by
    intro u v; unfold sgnI cmpI; split_ifs <;> simp_all
  obtain ⟨x1, x2, x3⟩ := hx x
  obtain ⟨y1, y2, y3⟩ := hx y
  unfold cmp
  simp only
  by_cases hsgn : sgnI x.a = sgnI y.a
  · simp only [hsgn, if_true]
    by_cases h0 : sgnI y.a = 0
    · simp only [h0, if_true]
      have hy0 : y.a = 0 := by unfold sgnI at h0; split_ifs at h0 <;> omega
      have hx0 : x.a = 0 := by rw [h0] at hsgn; unfold sgnI at hsgn; split_ifs at hsgn <;> omega
      rw [x3.2 hx0, y3.2 hy0]; simp [sgnI, cmpQ]
    · simp only [h0, if_false]
      split_ifs with h1 h2
      · rw [hss, toRat_def, toRat_def, h1]; exact hcmp _ _ _
      · rw [hss, toRat_def, toRat_def, hcmp _ _ x.n]
        congr 1
        push_cast; rw [P x.n y.n (by omega)]; field_simp
      · rw [hss, toRat_def, toRat_def, hcmp _ _ y.n]
        congr 1
        push_cast; rw [P y.n x.n (by omega)]; field_simp
  · simp only [hsgn, if_false]
    have hc : ∀ q : Dy, (q.toRat < 0 ∧ sgnI q.a = -1) ∨ (q.toRat = 0 ∧ sgnI q.a = 0) ∨ (0 < q.toRat ∧ sgnI q.a = 1) := by
      intro q
      obtain ⟨q1, q2, q3⟩ := hx q
      rcases lt_trichotomy q.a 0 with h | h | h
      · left; exact ⟨q2.2 h, by simp [sgnI, h, not_lt.2 h.le]⟩
      · right; left; exact ⟨q3.2 h, by simp [sgnI, h]⟩
      · right; right; exact ⟨q1.2 h, by simp [sgnI, h]⟩
    rcases hc x with ⟨hX, sX⟩ | ⟨hX, sX⟩ | ⟨hX, sX⟩ <;> rcases hc y with ⟨hY, sY⟩ | ⟨hY, sY⟩ | ⟨hY, sY⟩ <;>
      rw [sX, sY] at hsgn ⊢ <;> first
        | exact absurd rfl hsgn
        | (have hlt : x.toRat < y.toRat := by linarith
           simp [cmpQ, sgnI, hlt])
        | (have hgt : y.toRat < x.toRat := by linarith
           simp [cmpQ, sgnI, hgt, not_lt.2 hgt.le])

/-- floor, ceiling, numerator, denominator and the integrality test agree with the denoted rational. -/
theorem C17_dy_observers (x : Dy) (hx : x.Normalized) :
    x.floor = ⌊x.toRat⌋ ∧ x.ceil = ⌈x.toRat⌉ ∧ (x.getNum : ℚ) / x.getDen = x.toRat ∧
    (x.isInteger = true ↔ ∃ z : Int, x.toRat = z) ∧ x.sgn = sgnQ x.toRat := by
  have hfl : ∀ (a : Int) (n : Nat), a / 2 ^ n = ⌊(a : ℚ) / 2 ^ n⌋ := by
    intro a n
    have := Rat.floor_intCast_div_natCast a (2 ^ n)
    push_cast at this
    exact this.symm
  refine ⟨?_, ?_, ?_, ?_, ?_⟩
  · unfold floor
    split_ifs with h
    · rw [toRat_def]; exact hfl _ _
    · have : x.n = 0 := by omega
      rw [toRat_def, this]; simp
  · unfold ceil cdiv
    split_ifs with h
    · rw [toRat_def, hfl]
      push_cast
      rw [neg_div, Int.floor_neg, neg_neg]
    · have : x.n = 0 := by omega
      rw [toRat_def, this]; simp
  · rw [toRat_def]; simp [getNum, getDen]
  · unfold isInteger
    simp only [decide_eq_true_eq]
    constructor
    · intro h; exact ⟨x.a, by rw [toRat_def, h]; simp⟩
    · rintro ⟨z, hz⟩
      by_contra hn
      have hodd := hx.2 (by omega)
      rw [toRat_def] at hz
      have hp := two_pow_pos x.n
      have : (x.a : ℚ) = z * 2 ^ x.n := by field_simp at hz; rw [hz]; ring
      have h2 : x.a = z * 2 ^ x.n := by exact_mod_cast this
      have h3 : x.n = (x.n - 1) + 1 := by omega
      have h4 : (2:Int) ∣ x.a := by
        refine ⟨z * 2 ^ (x.n - 1), ?_⟩
        rw [h2]
        conv_lhs => rw [h3, pow_succ]
        ring
      omega
  · unfold sgn sgnI sgnQ
    rw [toRat_def]
    have hp := two_pow_pos x.n
    have e1 : (0 : ℚ) < (x.a : ℚ) / 2 ^ x.n ↔ 0 < x.a := by
      rw [div_pos_iff_of_pos_right hp]; exact_mod_cast Iff.rfl
    have e2 : (x.a : ℚ) / 2 ^ x.n < 0 ↔ x.a < 0 := by
      rw [div_lt_iff₀ hp, zero_mul]; exact_mod_cast Iff.rfl
    simp only [gt_iff_lt, e1, e2]

end Dy
end LP
