/-
  C13 — union of feasibility sets (`lp_feasibility_set_add`: concatenate, sort by lower bound, fuse overlapping or touching
  neighbours).  Proved for every pair of lists of well-formed intervals: the result contains exactly the numbers contained in
  either operand (`C13_union`).
-/
import LP.Props.C13

set_option linter.unusedSectionVars false

namespace LP

variable {α : Type*} [Field α] [LinearOrder α] [IsStrictOrderedRing α]

namespace FSet
open VI

/-- the lower bound of `I` is not above the lower bound of `J` (order used by the sort) -/
def LowLe (I J : VI) : Prop := cmpLower I J ≤ 0

/-! ### the order on lower bounds is a total preorder -/

theorem EP.cmp_self (a : EP) : EP.cmp a a = 0 := (EP.cmp_eq_zero a a).2 rfl

theorem EP.cmp_lt_trans (a b c : EP) (h1 : EP.cmp a b < 0) (h2 : EP.cmp b c < 0) : EP.cmp a c < 0 := by
  cases a <;> cases b <;> cases c <;> simp_all [EP.cmp]
  rename_i x y z
  rw [cmpQ_lt] at *
  exact lt_trans h1 h2

theorem EP.cmp_neg_of_pos (a b : EP) (h : EP.cmp a b > 0) : EP.cmp b a < 0 := (EP.cmp_antisymm a b).1 h
theorem EP.cmp_pos_of_neg (a b : EP) (h : EP.cmp a b < 0) : EP.cmp b a > 0 := (EP.cmp_antisymm b a).2 h

/-- reading of `cmpLower ≤ 0` -/
theorem lowLe_iff (I J : VI) :
    LowLe I J ↔ EP.cmp I.lower J.lower < 0 ∨ (I.lower = J.lower ∧ (I.aOpen = true → J.aOpen = true)) := by
  unfold LowLe cmpLower
  dsimp only
  by_cases h0 : EP.cmp I.lower J.lower = 0
  · have he := (EP.cmp_eq_zero _ _).1 h0
    rw [h0]
    simp only [ne_eq, not_true_eq_false, if_false, lt_irrefl, false_or]
    cases I.aOpen <;> cases J.aOpen <;> simp [he]
  · have hne : I.lower ≠ J.lower := fun h => h0 ((EP.cmp_eq_zero _ _).2 h)
    simp only [ne_eq, h0, not_false_eq_true, if_true, hne, false_and, or_false]
    omega

theorem lowLe_trans (I J K : VI) (h1 : LowLe I J) (h2 : LowLe J K) : LowLe I K := by
  rw [lowLe_iff] at *
  rcases h1 with h1 | ⟨e1, o1⟩ <;> rcases h2 with h2 | ⟨e2, o2⟩
  · exact Or.inl (EP.cmp_lt_trans _ _ _ h1 h2)
  · exact Or.inl (e2 ▸ h1)
  · exact Or.inl (e1 ▸ h2)
  · exact Or.inr ⟨e1.trans e2, fun h => o2 (o1 h)⟩

theorem lowLe_total (I J : VI) (h : ¬ LowLe I J) : LowLe J I := by
  rw [lowLe_iff] at *
  push Not at h
  by_cases h0 : EP.cmp I.lower J.lower = 0
  · have he := (EP.cmp_eq_zero _ _).1 h0
    obtain ⟨hi, hj⟩ := h.2 he
    exact Or.inr ⟨he.symm, fun hh => by simp [hj] at hh⟩
  · have : EP.cmp I.lower J.lower > 0 := by have := h.1; omega
    exact Or.inl (EP.cmp_neg_of_pos _ _ this)

theorem lowLe_sem (I J : VI) (h : LowLe I J) (x : α) : lowerOK J.lower J.aOpen x → lowerOK I.lower I.aOpen x :=
  (cmpLower_sem (α := α) I J).2 h x

/-- the order depends on the lower bound only -/
theorem lowLe_congr (I I' J : VI) (h1 : I'.lower = I.lower) (h2 : I'.aOpen = I.aOpen) : LowLe I' J ↔ LowLe I J := by
  unfold LowLe cmpLower; rw [h1, h2]

/-! ### the sort -/

/-- what each answer of the classification says about the bounds (`cu`, `cl`: comparison of the upper / lower bounds,
    `t`: upper end of the first against the lower end of the second) -/
def ClassSpec (c : ICmp) (cu cl t : Int) (bo ao : Bool) : Prop :=
  match c with
  | .eq => cu = 0 ∧ cl = 0
  | .ltWithI1 => cu < 0 ∧ cl ≥ 0
  | .gtWithI2 => cu > 0 ∧ cl ≤ 0
  | .geqWithI1 => cu = 0 ∧ cl > 0
  | .leqWithI2 => cu = 0 ∧ cl < 0
  | .ltNo => cu < 0 ∧ cl < 0 ∧ (t < 0 ∨ (t = 0 ∧ (bo = true ∨ ao = true)))
  | .ltWith => cu < 0 ∧ cl < 0 ∧ (t > 0 ∨ (t = 0 ∧ bo = false ∧ ao = false))
  | .gtWith => cu > 0 ∧ cl > 0
  | .gtNo => cu > 0 ∧ cl > 0

theorem cwiLt_class (I1 I2 : VI) (cu cl : Int) (hu : cu < 0) (hl : cl < 0) :
    ClassSpec (cwiLt I1 I2).1 cu cl (EP.cmp I1.upper I2.lower) I1.bOpen I2.aOpen := by
  unfold cwiLt
  generalize EP.cmp I1.upper I2.lower = t
  split_ifs with h1 h2 h3
  · exact ⟨hu, hl, Or.inr h1⟩
  · refine ⟨hu, hl, Or.inr ⟨h2, ?_, ?_⟩⟩
    · cases hb : I1.bOpen <;> simp_all
    · cases ha : I2.aOpen <;> simp_all
  · exact ⟨hu, hl, Or.inl h3⟩
  · exact ⟨hu, hl, Or.inl (by omega)⟩

theorem cwiGt_class (I1 I2 : VI) (cu cl t : Int) (bo ao : Bool) (hu : cu > 0) (hl : cl > 0) :
    ClassSpec (cwiGt I1 I2).1 cu cl t bo ao := by
  unfold cwiGt
  split_ifs <;> exact ⟨hu, hl⟩

theorem cwi_spec (I1 I2 : VI) :
    ClassSpec (cmpWithIntersect I1 I2).1 (cmpUpper I1 I2) (cmpLower I1 I2) (EP.cmp I1.upper I2.lower) I1.bOpen I2.aOpen := by
  unfold cmpWithIntersect cwiCore
  generalize cmpUpper I1 I2 = cu
  generalize cmpLower I1 I2 = cl
  split_ifs with h1 h2 h3 h4 h5 h6 h7 h8
  · exact h1
  · exact ⟨h2.1, by omega⟩
  · exact ⟨h3.1, by omega⟩
  · exact h4
  · exact h5
  · exact ⟨h6.2, by omega⟩
  · exact ⟨h7.2, by omega⟩
  · exact cwiLt_class I1 I2 cu cl h8 (by omega)
  · exact cwiGt_class I1 I2 cu cl _ _ _ (by omega) (by omega)

theorem cmpQ_flip (a b : Rat) : cmpQ b a = - cmpQ a b := by
  unfold cmpQ
  rcases lt_trichotomy a b with h | h | h
  · simp [h, not_lt.2 h.le]
  · subst h; simp
  · simp [h, not_lt.2 h.le]

theorem EP.cmp_flip (a b : EP) : EP.cmp b a = - EP.cmp a b := by
  cases a <;> cases b <;> first | rfl | exact cmpQ_flip _ _

theorem cmpLower_flip (I J : VI) : cmpLower J I = - cmpLower I J := by
  unfold cmpLower
  dsimp only
  rw [EP.cmp_flip I.lower J.lower]
  by_cases h : EP.cmp I.lower J.lower = 0
  · simp only [h, neg_zero, ne_eq, not_true_eq_false, if_false]
    cases I.aOpen <;> cases J.aOpen <;> simp
  · have : ¬ (- EP.cmp I.lower J.lower = 0) := by omega
    simp only [ne_eq, h, this, not_false_eq_true, if_true]

/-- the sort key orders by lower bound -/
theorem sortKey_sound (I1 I2 : VI) : (sortKey I1 I2 ≤ 0 → LowLe I1 I2) ∧ (¬ sortKey I1 I2 ≤ 0 → LowLe I2 I1) := by
  have tot := cmpLower_flip I1 I2
  have sp := cwi_spec I1 I2
  unfold LowLe at *
  unfold sortKey
  cases hc : (cmpWithIntersect I1 I2).1 <;> rw [hc] at sp <;> simp only [ClassSpec] at sp <;> simp <;> omega

theorem insertBy_perm (x : VI) (l : List VI) : (insertBy x l).Perm (x :: l) := by
  induction l with
  | nil => exact List.Perm.refl _
  | cons y l ih =>
    unfold insertBy
    split_ifs
    · exact List.Perm.refl _
    · exact (List.Perm.cons y ih).trans (List.Perm.swap x y l)

theorem sortForUnion_perm (l : List VI) : (sortForUnion l).Perm l := by
  induction l with
  | nil => exact List.Perm.refl _
  | cons x l ih =>
    show (insertBy x (sortForUnion l)).Perm (x :: l)
    exact (insertBy_perm x _).trans (List.Perm.cons x ih)

theorem insertBy_sorted (x : VI) (l : List VI) (h : l.Pairwise LowLe) : (insertBy x l).Pairwise LowLe := by
  induction l with
  | nil => exact List.pairwise_singleton _ _
  | cons y l ih =>
    unfold insertBy
    obtain ⟨hy, hl⟩ := List.pairwise_cons.1 h
    split_ifs with hk
    · have hxy := (sortKey_sound x y).1 hk
      refine List.pairwise_cons.2 ⟨?_, h⟩
      intro z hz
      rcases List.mem_cons.1 hz with rfl | hz
      · exact hxy
      · exact lowLe_trans _ _ _ hxy (hy z hz)
    · have hyx := (sortKey_sound x y).2 hk
      refine List.pairwise_cons.2 ⟨?_, ih hl⟩
      intro z hz
      have := (insertBy_perm x l).mem_iff.1 hz
      rcases List.mem_cons.1 this with rfl | hz
      · exact hyx
      · exact hy z hz

theorem sortForUnion_sorted (l : List VI) : (sortForUnion l).Pairwise LowLe := by
  induction l with
  | nil => exact List.Pairwise.nil
  | cons x l ih => exact insertBy_sorted x _ ih

theorem setMem_perm (l l' : List VI) (h : l.Perm l') (x : α) : SetMem α l x ↔ SetMem α l' x := by
  unfold SetMem
  constructor <;> rintro ⟨I, hI, hm⟩
  · exact ⟨I, h.mem_iff.1 hI, hm⟩
  · exact ⟨I, h.mem_iff.2 hI, hm⟩

theorem setMem_append (l l' : List VI) (x : α) : SetMem α (l ++ l') x ↔ SetMem α l x ∨ SetMem α l' x := by
  unfold SetMem
  constructor
  · rintro ⟨I, hI, hm⟩
    rcases List.mem_append.1 hI with h | h
    · exact Or.inl ⟨I, h, hm⟩
    · exact Or.inr ⟨I, h, hm⟩
  · rintro (⟨I, hI, hm⟩ | ⟨I, hI, hm⟩)
    · exact ⟨I, List.mem_append.2 (Or.inl hI), hm⟩
    · exact ⟨I, List.mem_append.2 (Or.inr hI), hm⟩

/-! ### the merge pass -/

/-- decision "fuse `I2` into the kept interval `I1`" of `lp_feasibility_set_add` -/
def mergeB (I1 I2 : VI) : Bool :=
  match (cmpWithIntersect I1 I2).1 with
  | .ltNo => decide (EP.cmp I1.upper I2.lower = 0) && (!I1.bOpen || !I2.aOpen)
  | .ltWith => true | .leqWithI2 => true | .eq => true | .geqWithI1 => true
  | _ => false

/-- decision "drop `I2`, it lies inside `I1`" -/
def ignoreB (I1 I2 : VI) : Bool := match (cmpWithIntersect I1 I2).1 with | .gtWithI2 => true | _ => false

theorem mergeLoop_cons_cons (I2 : VI) (rest : List VI) (I1 : VI) (kept : List VI) :
    mergeLoop (I2 :: rest) (I1 :: kept) =
      if mergeB I1 I2 then mergeLoop rest (setB I1 I2.upper I2.bOpen :: kept)
      else if ignoreB I1 I2 then mergeLoop rest (I1 :: kept)
      else mergeLoop rest (I2 :: I1 :: kept) := by
  rw [mergeLoop]; rfl

/-- the four bounds of the fused interval -/
theorem setB_bounds (I : VI) (u : EP) (o : Bool) (sc : EP.cmp I.a u = 0 → I.aOpen = false ∧ o = false) :
    (setB I u o).lower = I.lower ∧ (setB I u o).aOpen = I.aOpen ∧ (setB I u o).upper = u ∧ (setB I u o).bOpen = o := by
  unfold setB
  by_cases h : EP.cmp I.a u = 0
  · obtain ⟨h1, h2⟩ := sc h
    have he := (EP.cmp_eq_zero _ _).1 h
    subst he
    simp [EP.cmp_self, point, lower, upper, h1, h2]
  · simp [h, lower, upper]

/-- the degenerate case of `lp_interval_set_b` (new upper end equal to the lower end) only arises for closed ends -/
theorem merge_sc (I1 I2 : VI) (hw : I2.WF) (hl : LowLe I1 I2) :
    EP.cmp I1.a I2.upper = 0 → I1.aOpen = false ∧ I2.bOpen = false := by
  intro h
  have he : I1.lower = I2.upper := (EP.cmp_eq_zero _ _).1 h
  rw [lowLe_iff] at hl
  unfold WF at hw
  by_cases hp : I2.isPoint = true
  · rw [if_pos hp] at hw
    obtain ⟨_, ha, hb⟩ := hw
    have hup : I2.upper = I2.lower := by simp [upper, lower, hp]
    rcases hl with hl | ⟨_, ho⟩
    · rw [he, hup, EP.cmp_self] at hl; omega
    · refine ⟨?_, hb⟩
      cases hao : I1.aOpen
      · rfl
      · rw [ho hao] at ha; exact absurd ha (by simp)
  · rw [if_neg hp] at hw
    have hup : I2.upper = I2.b := by simp [upper, hp]
    have hlt : EP.cmp I2.lower I2.upper < 0 := by rw [hup]; exact hw.1
    rcases hl with hl | ⟨e, _⟩
    · rw [he] at hl
      have := EP.cmp_flip I2.lower I2.upper
      omega
    · rw [← e, he, EP.cmp_self] at hlt; omega

/-- whoever violates an upper bound respects every lower bound that starts below it, or at it when one of them is closed -/
theorem join_sem (u l : EP) (ou ol : Bool)
    (h : EP.cmp u l > 0 ∨ (EP.cmp u l = 0 ∧ ¬ (ou = true ∧ ol = true))) (x : α) :
    ¬ upperOK u ou x → lowerOK l ol x := by
  intro hx
  rcases u with _ | a | _ <;> rcases l with _ | b | _ <;> simp only [upperOK, lowerOK] at hx ⊢ <;>
    (try trivial) <;> (try (exact absurd trivial hx)) <;> (try (simp [EP.cmp] at h))
  rcases h with h | ⟨h, ho⟩
  · have hab : (b : α) < (a : α) := by exact_mod_cast (cmpQ_gt a b).1 h
    cases ou <;> cases ol <;> simp only [Bool.false_eq_true, if_false, if_true, not_le, not_lt] at hx ⊢ <;> linarith
  · have hab : a = b := (cmpQ_eq a b).1 h
    subst hab
    cases ou <;> cases ol <;> simp only [Bool.false_eq_true, if_false, if_true, not_le, not_lt] at hx ⊢ <;>
      first | linarith | (simp at ho)

/-- an interval with the lower bound of `I1` and the upper bound of `I2` is their union, when `I1` starts first, ends first
    and leaves no gap -/
theorem merge_mem (I1 I2 M : VI)
    (hb : M.lower = I1.lower ∧ M.aOpen = I1.aOpen ∧ M.upper = I2.upper ∧ M.bOpen = I2.bOpen)
    (hl : ∀ x : α, lowerOK I2.lower I2.aOpen x → lowerOK I1.lower I1.aOpen x)
    (hu : ∀ x : α, upperOK I1.upper I1.bOpen x → upperOK I2.upper I2.bOpen x)
    (hj : ∀ x : α, upperOK I2.upper I2.bOpen x → ¬ upperOK I1.upper I1.bOpen x → lowerOK I2.lower I2.aOpen x) (x : α) :
    M.Mem x ↔ I1.Mem x ∨ I2.Mem x := by
  obtain ⟨b1, b2, b3, b4⟩ := hb
  unfold Mem
  rw [b1, b2, b3, b4]
  constructor
  · rintro ⟨h1, h2⟩
    by_cases hx : upperOK I1.upper I1.bOpen x
    · exact Or.inl ⟨h1, hx⟩
    · exact Or.inr ⟨hj x h2 hx, h2⟩
  · rintro (⟨h1, h2⟩ | ⟨h1, h2⟩)
    · exact ⟨h1, hu x h2⟩
    · exact ⟨hl x h1, h2⟩

/-- one step of the merge pass, semantically -/
theorem merge_step (I1 I2 : VI) (hw : I2.WF) (hl : LowLe I1 I2) (x : α) :
    (mergeB I1 I2 = true → ((setB I1 I2.upper I2.bOpen).Mem x ↔ I1.Mem x ∨ I2.Mem x)) ∧
    (mergeB I1 I2 = false → ignoreB I1 I2 = true → (I2.Mem x → I1.Mem x)) := by
  have sp := cwi_spec I1 I2
  have hb := setB_bounds I1 I2.upper I2.bOpen (merge_sc I1 I2 hw hl)
  have hls := lowLe_sem (α := α) I1 I2 hl
  obtain ⟨u1, u2⟩ := cmpUpper_sem (α := α) I1 I2
  unfold LowLe at hl
  unfold mergeB ignoreB
  cases hc : (cmpWithIntersect I1 I2).1 <;> rw [hc] at sp <;> simp only [ClassSpec] at sp
  · -- ltNo: fused exactly when the intervals touch and one of the touching ends is closed
    refine ⟨fun hm => ?_, fun _ hi => by simp at hi⟩
    simp only [Bool.and_eq_true, decide_eq_true_eq, Bool.or_eq_true, Bool.not_eq_true'] at hm
    refine merge_mem I1 I2 _ hb hls (u1 (by omega)) (fun y _ hy => ?_) x
    refine join_sem _ _ _ _ (Or.inr ⟨hm.1, ?_⟩) y hy
    rintro ⟨h1, h2⟩
    rcases hm.2 with h | h <;> simp_all
  · -- ltWith
    refine ⟨fun _ => ?_, fun hm => by simp at hm⟩
    refine merge_mem I1 I2 _ hb hls (u1 (by omega)) (fun y _ hy => ?_) x
    refine join_sem _ _ _ _ ?_ y hy
    rcases sp.2.2 with h | ⟨h, h1, h2⟩
    · exact Or.inl h
    · exact Or.inr ⟨h, by simp [h1]⟩
  · -- ltWithI1: pushed
    exact ⟨fun hm => by simp at hm, fun _ hi => by simp at hi⟩
  · -- leqWithI2
    refine ⟨fun _ => ?_, fun hm => by simp at hm⟩
    exact merge_mem I1 I2 _ hb hls (u1 (by omega)) (fun y hy hn => absurd (u2 (by omega) y hy) hn) x
  · -- eq
    refine ⟨fun _ => ?_, fun hm => by simp at hm⟩
    exact merge_mem I1 I2 _ hb hls (u1 (by omega)) (fun y hy hn => absurd (u2 (by omega) y hy) hn) x
  · -- geqWithI1: excluded by the order
    omega
  · -- gtWithI2: I2 lies inside I1
    refine ⟨fun hm => by simp at hm, fun _ _ hm => ?_⟩
    exact ⟨hls x hm.1, u2 (by omega) x hm.2⟩
  · omega
  · omega

theorem lowLe_setB (I1 I2 J : VI) (hw : I2.WF) (hl : LowLe I1 I2) : LowLe (setB I1 I2.upper I2.bOpen) J ↔ LowLe I1 J := by
  obtain ⟨b1, b2, _, _⟩ := setB_bounds I1 I2.upper I2.bOpen (merge_sc I1 I2 hw hl)
  exact lowLe_congr I1 _ J b1 b2

/-- the merge pass keeps exactly the points of the remaining and the kept intervals -/
theorem mergeLoop_mem : ∀ (l kept : List VI), (∀ I ∈ l, I.WF) → l.Pairwise LowLe →
    (∀ I1, kept.head? = some I1 → ∀ J ∈ l, LowLe I1 J) →
    ∀ x : α, SetMem α (mergeLoop l kept) x ↔ SetMem α l x ∨ SetMem α kept x := by
  intro l
  induction l with
  | nil =>
    intro kept _ _ _ x
    rw [mergeLoop, setMem_reverse, setMem_nil]; simp
  | cons I2 rest ih =>
    intro kept hw hs hk x
    obtain ⟨h2, hs'⟩ := List.pairwise_cons.1 hs
    have hw' : ∀ I ∈ rest, I.WF := fun I hI => hw I (List.mem_cons_of_mem _ hI)
    cases kept with
    | nil =>
      rw [mergeLoop, ih [I2] hw' hs' (fun I1 h J hJ => by simp at h; subst h; exact h2 J hJ) x]
      simp only [setMem_cons, setMem_nil]
      tauto
    | cons I1 kept =>
      have hl12 : LowLe I1 I2 := hk I1 rfl I2 (List.mem_cons_self)
      obtain ⟨sm, si⟩ := merge_step (α := α) I1 I2 (hw I2 (List.mem_cons_self)) hl12 x
      rw [mergeLoop_cons_cons]
      by_cases hm : mergeB I1 I2 = true
      · rw [if_pos hm, ih _ hw' hs' (fun I h J hJ => by
            simp at h; subst h
            exact (lowLe_setB I1 I2 J (hw I2 (List.mem_cons_self)) hl12).2 (hk I1 rfl J (List.mem_cons_of_mem _ hJ))) x,
          setMem_cons, setMem_cons I2 rest, setMem_cons I1 kept, sm hm]
        tauto
      · rw [if_neg hm]
        have hm' : mergeB I1 I2 = false := by simpa using hm
        by_cases hi : ignoreB I1 I2 = true
        · rw [if_pos hi, ih _ hw' hs' (fun I h J hJ => by
              simp at h; subst h; exact hk I1 rfl J (List.mem_cons_of_mem _ hJ)) x,
            setMem_cons I2 rest, setMem_cons I1 kept]
          have := si hm' hi
          tauto
        · rw [if_neg hi, ih _ hw' hs' (fun I h J hJ => by simp at h; subst h; exact h2 J hJ) x,
            setMem_cons I2 (I1 :: kept), setMem_cons I2 rest]
          tauto

/-- **Union of feasibility sets** (`lp_feasibility_set_add`): the result contains exactly the numbers contained in either
    operand — for all lists of well-formed intervals (sortedness of the operands is not even needed). -/
theorem C13_union (s frm : List VI) (hs : ∀ I ∈ s, I.WF) (hf : ∀ I ∈ frm, I.WF) (x : α) :
    SetMem α (add s frm) x ↔ SetMem α s x ∨ SetMem α frm x := by
  unfold add
  by_cases he : frm.isEmpty = true
  · rw [if_pos he]
    have : frm = [] := List.isEmpty_iff.1 he
    subst this
    simp [setMem_nil]
  · rw [if_neg he]
    by_cases hfull : isFull s = true
    · rw [if_pos hfull]
      -- a full set already contains everything
      have hall : SetMem α s x := by
        unfold isFull at hfull
        match s, hfull with
        | [I], hfull =>
          simp only [Bool.and_eq_true, decide_eq_true_eq] at hfull
          exact ⟨I, List.mem_singleton.2 rfl, by unfold Mem; rw [hfull.1, hfull.2]; exact ⟨trivial, trivial⟩⟩
      exact ⟨fun h => Or.inl h, fun _ => hall⟩
    · rw [if_neg hfull]
      have hw : ∀ I ∈ sortForUnion (s ++ frm), I.WF := by
        intro I hI
        have := (sortForUnion_perm (s ++ frm)).mem_iff.1 hI
        rcases List.mem_append.1 this with h | h
        · exact hs I h
        · exact hf I h
      rw [mergeLoop_mem _ [] hw (sortForUnion_sorted _) (fun I1 h => by simp at h) x,
        setMem_perm _ _ (sortForUnion_perm (s ++ frm)) x, setMem_append, setMem_nil]
      tauto

/-! non-vacuity: touching half-open intervals are fused, a point inside is dropped, a separate interval stays -/
example : add [VI.mk' (.fin 0) false (.fin 1) true, VI.mk' (.fin 3) true (.fin 4) true]
      [VI.point (.fin 0), VI.mk' (.fin 1) false (.fin 2) false] =
    [VI.mk' (.fin 0) false (.fin 2) false, VI.mk' (.fin 3) true (.fin 4) true] := by decide +kernel

end FSet
end LP
