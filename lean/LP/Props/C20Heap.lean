/-
  C20 — the array of the binary heap always holds exactly the multiset pushed minus the elements popped or removed:
  `heapify_up` / `heapify_down` only swap elements (`siftUp_perm`, `siftDown_perm`), so `push` adds exactly its argument
  (`C20_heap_push_perm`), `pop` removes exactly one occurrence of the element it returns (`C20_heap_pop_perm`) and
  `remove` takes out copies of its argument only, as many as it reports (`C20_heap_remove_perm`).
  (That the element returned is a maximal one is checked by the correspondence against the reference bag, whose `pop`
  is proved to return a maximum — `C20_spec_pop`.)
-/
import LP.Model.Containers

namespace LP
namespace Heap

theorem swap_size (a : Array Int) (i j : Nat) : (swap a i j).size = a.size := by
  unfold swap; simp

theorem swap_perm (a : Array Int) (i j : Nat) (hi : i < a.size) (hj : j < a.size) : (swap a i j).Perm a := by
  have : swap a i j = a.swap i j hi hj := by
    unfold swap Array.swap
    simp [Array.getD, hi, hj, Array.set!, Array.setIfInBounds, Array.size_set]
  rw [this]
  exact Array.swap_perm hi hj

/-- `heapify_up` permutes the array -/
theorem siftUp_perm : ∀ (fuel : Nat) (a : Array Int) (pos : Nat), pos ≤ a.size → (siftUp a fuel pos).Perm a := by
  intro fuel
  induction fuel with
  | zero => intro a pos _; exact Array.Perm.refl _
  | succ f ih =>
    intro a pos hp
    unfold siftUp
    split
    · rename_i hc
      have h1 : pos / 2 - 1 < a.size := by omega
      have h2 : pos - 1 < a.size := by omega
      refine Array.Perm.trans (ih _ _ ?_) (swap_perm a _ _ h1 h2)
      rw [swap_size]; omega
    · exact Array.Perm.refl _

/-- `heapify_down` permutes the array -/
theorem siftDown_perm : ∀ (fuel : Nat) (a : Array Int) (size pos : Nat), size ≤ a.size → 1 ≤ pos →
    (siftDown a size fuel pos).Perm a := by
  intro fuel
  induction fuel with
  | zero => intro a size pos _ _; exact Array.Perm.refl _
  | succ f ih =>
    intro a size pos hs hp
    unfold siftDown
    split
    · rename_i hc
      dsimp only
      have ho : ∀ o : Nat, (o = 2 * pos + 1 ∧ 2 * pos + 1 ≤ size) ∨ o = 2 * pos →
          (if a.getD (pos - 1) 0 ≥ a.getD (o - 1) 0 then a else siftDown (swap a (pos - 1) (o - 1)) size f o).Perm a := by
        intro o hcase
        split
        · exact Array.Perm.refl _
        · have h1 : pos - 1 < a.size := by omega
          have h2 : o - 1 < a.size := by omega
          refine Array.Perm.trans (ih _ _ _ ?_ (by omega)) (swap_perm a _ _ h1 h2)
          rw [swap_size]; exact hs
      split
      · rename_i hr
        exact ho _ (Or.inl ⟨rfl, hr.1⟩)
      · exact ho _ (Or.inr rfl)
    · exact Array.Perm.refl _

/-- **push adds exactly its argument** -/
theorem C20_heap_push_perm (h : Heap) (x : Int) : (push h x).data.Perm (h.data.push x) := by
  unfold push
  exact siftUp_perm _ _ _ (Nat.le_refl _)

theorem pop_core_perm (l : List Int) (top : Int) (h : l.head? = some top) :
    (((l.toArray.set! 0 l.toArray.back!).pop).push top).Perm l.toArray := by
  cases l with
  | nil => simp at h
  | cons t rest =>
    simp only [List.head?_cons, Option.some.injEq] at h
    subst h
    rcases List.eq_nil_or_concat rest with rfl | ⟨mid, lst, rfl⟩
    · simp [Array.back!, Array.set!, Array.setIfInBounds]
    · rw [Array.perm_iff_toList_perm]
      simp [Array.back!, Array.set!, Array.setIfInBounds]
      have e : lst :: (mid ++ [lst]) = (lst :: mid) ++ [lst] := rfl
      rw [e, List.dropLast_concat]
      exact (List.perm_append_singleton t (lst :: mid)).trans ((List.perm_append_singleton lst mid).symm.cons t)


/-- **pop removes exactly one occurrence of the element it returns** (which is the first element of the array) -/
theorem C20_heap_pop_perm (h : Heap) (top : Int) (ht : h.data[0]? = some top) :
    (pop h).2 = some top ∧ ((pop h).1.data.push top).Perm h.data := by
  unfold pop
  rw [ht]
  refine ⟨rfl, ?_⟩
  dsimp only
  have hl : h.data.toList.head? = some top := by
    rw [List.head?_eq_getElem?]; simpa using ht
  have core := pop_core_perm h.data.toList top hl
  simp only [Array.toArray_toList] at core
  refine Array.Perm.trans ?_ core
  exact Array.Perm.push top (siftDown_perm _ _ _ _ (Nat.le_refl _) (Nat.le_refl _))

/-- an empty heap pops nothing -/
theorem C20_heap_pop_empty (h : Heap) (ht : h.data[0]? = none) : pop h = (h, none) := by
  unfold pop; rw [ht]

/-- overwriting slot `i` with the last element and dropping the last slot removes exactly the element of slot `i` -/
theorem dropAt_perm (a : Array Int) (i : Nat) (hi : i < a.size) :
    (((a.set! i a.back!).pop).push (a.getD i 0)).Perm a := by
  have hn : a.size - 1 < a.size := by omega
  have hb : a.back! = a[a.size - 1] := by simp [Array.back!, hn]
  have hg : a.getD i 0 = a[i] := by simp [Array.getD, hi]
  have : ((a.set! i a.back!).pop).push (a.getD i 0) = a.swap i (a.size - 1) hi hn := by
    rw [hb, hg]
    apply Array.ext
    · simp; omega
    · intro k h1 h2
      have hk : k < a.size := by simpa using h2
      rw [Array.getElem_swap hi hn h2, Array.getElem_push]
      by_cases h3 : k < a.size - 1
      · have h3' : k < ((a.set! i a[a.size - 1]).pop).size := by simpa using h3
        rw [dif_pos h3', Array.getElem_pop]
        simp only [Array.set!]
        rw [Array.getElem_setIfInBounds]
        by_cases h4 : i = k
        · subst h4; simp
        · have h5 : k ≠ a.size - 1 := by omega
          simp [h4, Ne.symm h4, h5]
        exact hk
      · have h3' : ¬ k < ((a.set! i a[a.size - 1]).pop).size := by simpa using h3
        rw [dif_neg h3']
        have h5 : k = a.size - 1 := by omega
        subst h5
        by_cases h4 : a.size - 1 = i
        · simp [h4]
        · simp [h4]
  rw [this]
  exact Array.swap_perm hi hn


theorem perm_size {a b : Array Int} (h : a.Perm b) : a.size = b.size := by
  have := (Array.perm_iff_toList_perm.1 h).length_eq
  simpa using this

/-- `lp_polynomial_heap_remove`: what is left, together with the removed copies of `x`, is what was there -/
theorem removeLoop_perm (x : Int) : ∀ (fuel i : Nat) (a : Array Int) (cnt : Nat),
    cnt ≤ (removeLoop x fuel i a cnt).2 ∧
    ((removeLoop x fuel i a cnt).1.toList ++ List.replicate ((removeLoop x fuel i a cnt).2 - cnt) x).Perm a.toList := by
  intro fuel
  induction fuel with
  | zero => intro i a cnt; simp [removeLoop]
  | succ f ih =>
    intro i a cnt
    unfold removeLoop
    by_cases hi : i ≥ a.size
    · simp [hi]
    · have hi' : i < a.size := by omega
      simp only [if_neg hi]
      by_cases hx : a.getD i 0 = x
      · simp only [if_pos hx]
        generalize ha2 : (if i < ((a.set! i a.back!).pop).size then
            siftDown (siftUp ((a.set! i a.back!).pop) (((a.set! i a.back!).pop).size + 1) (i + 1)) ((a.set! i a.back!).pop).size
              (((a.set! i a.back!).pop).size + 1) (i + 1) else (a.set! i a.back!).pop) = a2
        have hperm2 : a2.Perm ((a.set! i a.back!).pop) := by
          rw [← ha2]
          split
          · rename_i hlt
            have p1 := siftUp_perm (((a.set! i a.back!).pop).size + 1) ((a.set! i a.back!).pop) (i + 1) (by omega)
            refine Array.Perm.trans (siftDown_perm _ _ _ _ ?_ (by omega)) p1
            rw [perm_size p1]; exact Nat.le_refl _
          · exact Array.Perm.refl _
        obtain ⟨h1, h2⟩ := ih 0 a2 (cnt + 1)
        refine ⟨by omega, ?_⟩
        have hd := dropAt_perm a i hi'
        rw [hx] at hd
        have e : (removeLoop x f 0 a2 (cnt + 1)).2 - cnt = ((removeLoop x f 0 a2 (cnt + 1)).2 - (cnt + 1)) + 1 := by omega
        rw [e, List.replicate_succ', ← List.append_assoc]
        have h3 : (a2.toList ++ [x]).Perm a.toList := by
          have := Array.perm_iff_toList_perm.1 (Array.Perm.trans (Array.Perm.push x hperm2) hd)
          simpa using this
        exact (h2.append_right [x]).trans h3
      · simp only [if_neg hx]
        exact ih (i + 1) a cnt

/-- **remove takes out copies of its argument only, and as many as it reports** -/
theorem C20_heap_remove_perm (h : Heap) (x : Int) :
    ((remove h x).1.data.toList ++ List.replicate (remove h x).2 x).Perm h.data.toList := by
  unfold remove
  have := (removeLoop_perm x ((h.data.size + 1) * (h.data.size + 1) + 1) 0 h.data 0).2
  simpa using this

end Heap
end LP
