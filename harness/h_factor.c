/* C05 harness: factorizations.
 *   fac usqf <ring> u:f => c k (u:fi mi)*           lp_upolynomial_factor_square_free
 *   fac ufull <ring> u:f nb u:b1 e1 .. => c k (u:fi mi)*   lp_upolynomial_factor; over Z the input is the product of the
 *                                                    irreducible blocks b_j^e_j (times a content), listed for the oracle
 *   fac msqf P => k (Pi mi)*                        lp_polynomial_factor_square_free
 *   fac mcf P => k (Pi mi)*                         lp_polynomial_factor_content_free
 */
#define LPV_CASE_TIMEOUT 60
#include "halg.h"

/* irreducible blocks over Z */
static const hfac zblocks[] = {
  {1, {0, 1}}, {1, {-1, 1}}, {1, {1, 1}}, {1, {-2, 1}}, {1, {2, 1}}, {1, {-3, 1}}, {1, {3, 1}}, {1, {-1, 2}}, {1, {1, 3}}, {1, {-5, 7}}, {1, {4, 1}},
  {2, {-2, 0, 1}}, {2, {1, 0, 1}}, {2, {1, 1, 1}}, {2, {-1, -1, 1}}, {2, {-1, 0, 2}}, {2, {3, 0, 1}}, {2, {1, -1, 1}}, {2, {2, 2, 1}}, {2, {-3, 0, 5}},
  {3, {-2, 0, 0, 1}}, {3, {1, -3, 0, 1}}, {3, {-1, -1, 0, 1}}, {3, {1, 1, 0, 2}},
  {4, {1, 0, 0, 0, 1}}, {4, {1, 0, -10, 0, 1}}, {4, {-2, 0, 0, 0, 1}}, {4, {1, 1, 1, 1, 1}}, {4, {1, 0, 1, 0, 1}},
  /* 29..: quartics that split into 3-4 factors modulo small primes, and blocks of degree 5-6 that stay irreducible modulo a small
     prime: their products need selections of more than half of the lifted factors (the driver certifies every block itself) */
  {4, {3, 1, 1, 1, 1}}, {4, {1, 0, -1, 0, 1}}, {4, {1, 0, 3, 0, 1}}, {4, {9, 0, -2, 0, 1}},
  {5, {2, -1, 0, 0, 0, 1}}, {5, {-1, -1, 0, 0, 0, 1}}, {5, {1, 0, 1, 0, 0, 1}}, {6, {1, 0, 0, 1, 0, 0, 1}}, {6, {1, 1, 0, 0, 0, 0, 1}}, {5, {3, 0, 0, 1, 0, 1}},
};
#define SPLIT0 29
#define NSPLIT 4
#define BIG0 33
#define NBIG 6
#define NZBLOCKS (sizeof zblocks / sizeof zblocks[0])
/* note: x^4+x^2+1 = (x^2+x+1)(x^2-x+1) is NOT irreducible: index 28 is a decoy handled below */
#define DECOY 28

static void emit_factors(const lp_upolynomial_factors_t* fs) {
  sb_sp(); sb_mpz(lp_upolynomial_factors_get_constant(fs)); sb_sp(); sb_ulong(lp_upolynomial_factors_size(fs));
  for (size_t i = 0; i < lp_upolynomial_factors_size(fs); ++i) {
    size_t m = 0; lp_upolynomial_t* f = lp_upolynomial_factors_get_factor((lp_upolynomial_factors_t*)fs, i, &m);
    sb_sp(); sb_upoly(f); sb_sp(); sb_ulong(m);
  }
}

/* product of two random monic polynomials (degree 3-4 times degree 5-6): whatever their splitting pattern modulo the prime the
   library picks, the factors to be recombined may need more than half of the lifted factors; the driver certifies the
   irreducibility of both blocks itself (uncertified cases are skipped and counted) */
/* number of irreducible factors of f modulo the first prime p in 2,3,5,7,11,13 for which f mod p keeps its degree and is square-free
   (input selection only: the library's own Z_p factorization picks hard instances, the model judges the result) */
static int modular_factors(const lp_upolynomial_t* f, const lp_upolynomial_t* g, int* of_g) {
  static const long ps[] = { 2, 3, 5, 7, 11, 13 };
  for (unsigned k = 0; k < 6; ++k) {
    lp_integer_t M; lp_integer_construct_from_int(lp_Z, &M, ps[k]);
    lp_int_ring_t* K = lp_int_ring_create(&M, 1);
    lp_upolynomial_t* fp = lp_upolynomial_construct_copy_K(K, f);
    int r = -1;
    if (lp_upolynomial_degree(fp) == lp_upolynomial_degree(f)) {
      lp_upolynomial_t* d = lp_upolynomial_derivative(fp);
      int sqf = 0;
      if (!lp_upolynomial_is_zero(d)) { lp_upolynomial_t* h = lp_upolynomial_gcd(fp, d); sqf = lp_upolynomial_degree(h) == 0; lp_upolynomial_delete(h); }
      lp_upolynomial_delete(d);
      if (sqf) {
        lp_upolynomial_factors_t* fs = lp_upolynomial_factor(fp); r = (int)lp_upolynomial_factors_size(fs); lp_upolynomial_factors_destruct(fs, 1);
        lp_upolynomial_t* gp = lp_upolynomial_construct_copy_K(K, g);
        lp_upolynomial_factors_t* gs = lp_upolynomial_factor(gp); *of_g = (int)lp_upolynomial_factors_size(gs); lp_upolynomial_factors_destruct(gs, 1);
        lp_upolynomial_delete(gp);
      }
    }
    lp_upolynomial_delete(fp); lp_int_ring_detach(K); lp_integer_destruct(&M);
    if (r >= 0) return r;
  }
  return -1;
}

/* irreducible modulo one of the primes 2..13 (hence over Z, the polynomial being monic) */
static int irreducible_mod_some_prime(const lp_upolynomial_t* g) {
  static const long ps[] = { 2, 3, 5, 7, 11, 13 };
  int yes = 0;
  for (unsigned k = 0; k < 6 && !yes; ++k) {
    lp_integer_t M; lp_integer_construct_from_int(lp_Z, &M, ps[k]);
    lp_int_ring_t* K = lp_int_ring_create(&M, 1);
    lp_upolynomial_t* gp = lp_upolynomial_construct_copy_K(K, g);
    lp_upolynomial_factors_t* gs = lp_upolynomial_factor(gp);
    size_t m = 0;
    if (lp_upolynomial_factors_size(gs) == 1) { lp_upolynomial_factors_get_factor(gs, 0, &m); yes = m == 1; }
    lp_upolynomial_factors_destruct(gs, 1); lp_upolynomial_delete(gp); lp_int_ring_detach(K); lp_integer_destruct(&M);
  }
  return yes;
}

/* product of two random monic polynomials (degree 3-4 times degree 5-6), selected so that the smaller one splits into more than
   half of the modular factors: recombination must then try selections of more than half of the lifted factors. The driver
   certifies the irreducibility of both blocks itself (uncertified cases are skipped and counted) */
static void z_random_pair(void) {
  lp_upolynomial_t *g = 0, *h = 0, *f = 0;
  for (int t = 0; t < 40; ++t) {
    if (f) { lp_upolynomial_delete(f); lp_upolynomial_delete(g); lp_upolynomial_delete(h); }
    long cg[8] = {0}, ch[8] = {0};
    unsigned dg = 3 + rnd(2), dh = 5 + rnd(2);
    for (unsigned i = 0; i < dg; ++i) cg[i] = rnd_in(-3, 3);
    for (unsigned i = 0; i < dh; ++i) ch[i] = chance(50) ? 0 : rnd_in(-2, 2);
    cg[dg] = 1; ch[dh] = 1; if (cg[0] == 0) cg[0] = 3; if (ch[0] == 0) ch[0] = 2;
    g = lp_upolynomial_construct_from_long(lp_Z, dg, cg);
    h = lp_upolynomial_construct_from_long(lp_Z, dh, ch);
    f = lp_upolynomial_mul(g, h);
    int rg = 0, r = modular_factors(f, g, &rg);
    if (t >= 38 || (r > 0 && 2 * rg > r && rg >= 3 && irreducible_mod_some_prime(g) && irreducible_mod_some_prime(h))) break;
  }
  sb_begin("fac", "ufull"); sb_str(" Z "); sb_upoly(f); sb_sp(); sb_long(2); sb_sp(); sb_upoly(g); sb_str(" 1 "); sb_upoly(h); sb_str(" 1"); sb_arrow();
  lp_upolynomial_factors_t* fs = lp_upolynomial_factor(f);
  emit_factors(fs); sb_emit();
  lp_upolynomial_factors_destruct(fs, 1);
  lp_upolynomial_delete(f); lp_upolynomial_delete(g); lp_upolynomial_delete(h);
}

/* factors whose constant terms dwarf every other coefficient: the coefficient bound that decides how far the modular factors
   are lifted is then dominated by the constant term ((x - a)(x + b), (x^2 + a)(x - b), (x^2 - a)(x^2 + a) with a not a square) */
static int is_square(long a) { long r = 0; while ((r + 1) * (r + 1) <= a) ++r; return r * r == a; }
static void z_big_constant(void) {
  long a = 50 + (long)rnd(20000), b = 50 + (long)rnd(20000);
  unsigned shape = rnd(3);
  long cg[4] = {0}, ch[4] = {0}; unsigned dg, dh;
  if (shape == 0) { dg = 1; cg[0] = -a; cg[1] = 1; dh = 1; ch[0] = b; ch[1] = 1; }
  else if (shape == 1) { dg = 2; cg[0] = a; cg[2] = 1; dh = 1; ch[0] = -b; ch[1] = 1; }
  else { while (is_square(a)) ++a; dg = 2; cg[0] = -a; cg[2] = 1; dh = 2; ch[0] = a; ch[2] = 1; }
  lp_upolynomial_t* g = lp_upolynomial_construct_from_long(lp_Z, dg, cg);
  lp_upolynomial_t* h = lp_upolynomial_construct_from_long(lp_Z, dh, ch);
  lp_upolynomial_t* f = lp_upolynomial_mul(g, h);
  sb_begin("fac", "ufull"); sb_str(" Z "); sb_upoly(f); sb_sp(); sb_long(2); sb_sp(); sb_upoly(g); sb_str(" 1 "); sb_upoly(h); sb_str(" 1"); sb_arrow();
  lp_upolynomial_factors_t* fs = lp_upolynomial_factor(f);
  emit_factors(fs); sb_emit();
  lp_upolynomial_factors_destruct(fs, 1);
  lp_upolynomial_delete(f); lp_upolynomial_delete(g); lp_upolynomial_delete(h);
}

/* single-term polynomials c*x^k (k = 0: a constant): the content is the whole coefficient, sign included */
static void z_monomial(void) {
  long c[6] = {0}; unsigned k = rnd(5);
  c[k] = chance(60) ? -(long)(1 + rnd(12)) : (long)(1 + rnd(12));
  lp_upolynomial_t* f = lp_upolynomial_construct_from_long(lp_Z, k, c);
  long cx[2] = { 0, 1 };
  lp_upolynomial_t* x = lp_upolynomial_construct_from_long(lp_Z, 1, cx);
  int full = chance(60);
  if (full) {
    sb_begin("fac", "ufull"); sb_str(" Z "); sb_upoly(f); sb_sp(); sb_long(k ? 1 : 0);
    if (k) { sb_sp(); sb_upoly(x); sb_sp(); sb_long((long)k); }
    sb_arrow();
    lp_upolynomial_factors_t* fs = lp_upolynomial_factor(f);
    emit_factors(fs); sb_emit();
    lp_upolynomial_factors_destruct(fs, 1);
  } else {
    sb_begin("fac", "usqf"); sb_str(" Z "); sb_upoly(f); sb_arrow();
    lp_upolynomial_factors_t* fs = lp_upolynomial_factor_square_free(f);
    emit_factors(fs); sb_emit();
    lp_upolynomial_factors_destruct(fs, 1);
  }
  lp_upolynomial_delete(f); lp_upolynomial_delete(x);
}

static void z_case(void) {
  if (chance(6)) { z_monomial(); return; }
  if (chance(22)) { z_random_pair(); return; }
  if (chance(10)) { z_big_constant(); return; }
  /* product of blocks with multiplicities, times a content */
  int idx[6], mult[6], nb = 0; unsigned deg = 0;
  unsigned shape = rnd(100);
  int target = shape < 20 ? 5 : (shape < 34 ? 2 : 1 + rnd(3));                    /* many small factors force recombination */
  for (int t = 0; t < 12 && nb < target; ++t) {
    int j = shape < 20 ? (int)rnd(11) : (int)rnd(NZBLOCKS);
    if (shape >= 20 && shape < 34) j = nb == 0 ? (chance(50) ? SPLIT0 + (int)rnd(NSPLIT) : 24 + (int)rnd(2)) : BIG0 + (int)rnd(NBIG);   /* split quartic x big block */
    if (j == DECOY) continue;
    int dup = 0; for (int k = 0; k < nb; ++k) if (idx[k] == j) dup = 1;
    if (dup) continue;
    int m = chance(70) || (shape >= 20 && shape < 34) ? 1 : 1 + rnd(3);
    if (deg + zblocks[j].deg * m > 10) continue;
    idx[nb] = j; mult[nb] = m; ++nb; deg += zblocks[j].deg * m;
  }
  if (nb == 0) { idx[0] = 11; mult[0] = 1; nb = 1; }
  long content = chance(60) ? 1 : (chance(50) ? -1 : rnd_in(-12, 12)); if (content == 0) content = 6;
  lp_upolynomial_t* f = lp_upolynomial_construct_from_long(lp_Z, 0, &content);
  for (int k = 0; k < nb; ++k) for (int e = 0; e < mult[k]; ++e) f = upoly_times(f, hfac_poly(&zblocks[idx[k]]));
  int full = chance(60);
  if (full) {
    sb_begin("fac", "ufull"); sb_str(" Z "); sb_upoly(f); sb_sp(); sb_long(nb);
    for (int k = 0; k < nb; ++k) { lp_upolynomial_t* b = hfac_poly(&zblocks[idx[k]]); sb_sp(); sb_upoly(b); sb_sp(); sb_long(mult[k]); lp_upolynomial_delete(b); }
    sb_arrow();
    lp_upolynomial_factors_t* fs = lp_upolynomial_factor(f);
    emit_factors(fs); sb_emit();
    lp_upolynomial_factors_destruct(fs, 1);
  } else {
    sb_begin("fac", "usqf"); sb_str(" Z "); sb_upoly(f); sb_arrow();
    lp_upolynomial_factors_t* fs = lp_upolynomial_factor_square_free(f);
    emit_factors(fs); sb_emit();
    lp_upolynomial_factors_destruct(fs, 1);
  }
  lp_upolynomial_delete(f);
}

static void zp_case(void) {
  static const int prime_rings[] = { 1, 2, 3 };               /* hp_moduli: 5, 13, 2 */
  int ri = prime_rings[rnd(3)];
  long p = ri == 1 ? 5 : ri == 2 ? 13 : 2;
  /* product of random monic-ish polynomials with multiplicities incl. multiples of p */
  long one = 1 + (long)rnd((unsigned long)p - 1);
  lp_upolynomial_t* f = lp_upolynomial_construct_from_long(hp_ring[ri], 0, &one);
  unsigned deg = 0; int nf = 1 + rnd(3);
  for (int k = 0; k < nf; ++k) {
    lp_upolynomial_t* g;
    do { g = hp_random_upoly(ri, 1 + rnd(3)); if (lp_upolynomial_degree(g) == 0) { lp_upolynomial_delete(g); g = 0; } } while (!g);
    unsigned m = chance(60) ? 1 : (chance(50) ? (unsigned)p : 2 + rnd(3));
    if (deg + lp_upolynomial_degree(g) * m > (p == 13 ? 6u : 9u)) m = 1;
    if (deg + lp_upolynomial_degree(g) * m > (p == 13 ? 6u : 9u)) { lp_upolynomial_delete(g); continue; }
    deg += lp_upolynomial_degree(g) * m;
    for (unsigned e = 0; e < m; ++e) { lp_upolynomial_t* c = lp_upolynomial_construct_copy(g); f = upoly_times(f, c); }
    lp_upolynomial_delete(g);
  }
  if (lp_upolynomial_degree(f) == 0) { lp_upolynomial_delete(f); long c[3] = { 1, 1, 1 }; f = lp_upolynomial_construct_from_long(hp_ring[ri], 2, c); }
  int full = chance(55);
  sb_begin("fac", full ? "ufull" : "usqf"); sb_sp(); hp_ring_token(ri); sb_sp(); sb_upoly(f);
  if (full) sb_str(" 0");
  sb_arrow();
  lp_upolynomial_factors_t* fs = full ? lp_upolynomial_factor(f) : lp_upolynomial_factor_square_free(f);
  emit_factors(fs); sb_emit();
  lp_upolynomial_factors_destruct(fs, 1);
  lp_upolynomial_delete(f);
}

static void m_case(void) {
  /* product of small polynomials in x0, x1 (x2) with multiplicities, times a content in the lower variables */
  /* sometimes P is an external polynomial built under the reversed variable order; the order is restored before the
     factorization, which is then the first call that sees it */
  int stale = chance(15);
  if (stale) hp_stale_begin();
  lp_polynomial_t* P = lp_polynomial_new(hp_ctx[0]);
  { lp_integer_t one; lp_integer_construct_from_int(lp_Z, &one, chance(70) ? 1 : rnd_in(2, 6)); lp_polynomial_t* c = lp_polynomial_alloc();
    lp_polynomial_construct_simple(c, hp_ctx[0], &one, hp_x[0], 0); lp_polynomial_assign(P, c); lp_polynomial_delete(c); lp_integer_destruct(&one); }
  int nf = 1 + rnd(3);
  for (int k = 0; k < nf; ++k) {
    lp_polynomial_t* g = hp_random_poly(0, 1 + (int)rnd(3), 2, 3);
    if (lp_polynomial_is_zero(g)) { lp_polynomial_delete(g); continue; }
    unsigned m = chance(60) ? 1 : 2 + rnd(2);
    for (unsigned e = 0; e < m; ++e) lp_polynomial_mul(P, P, g);
    lp_polynomial_delete(g);
  }
  if (lp_polynomial_is_constant(P)) { lp_polynomial_delete(P); P = hp_random_poly(0, 2, 2, 3); }
  if (lp_polynomial_is_zero(P) || lp_polynomial_is_constant(P)) { hp_stale_end(); lp_polynomial_delete(P); return; }
  char* tokP = 0;
  if (stale) {
    lp_polynomial_t* T = lp_polynomial_new_copy(P);
    tokP = hp_tok(P); lp_polynomial_set_external(P);
    hp_stale_end();
    lp_polynomial_ensure_order(T);
    int big = lp_polynomial_is_constant(T) || lp_polynomial_degree(T) > 8;
    lp_polynomial_delete(T);
    if (big) { lp_polynomial_delete(P); free(tokP); return; }
  } else if (lp_polynomial_degree(P) > 8) { lp_polynomial_delete(P); return; }
  int sqf = chance(65);
  lp_polynomial_t** factors = 0; size_t* mult = 0; size_t n = 0;
  sb_begin("fac", sqf ? "msqf" : "mcf"); sb_sp(); if (tokP) sb_str(tokP); else sb_poly(P); sb_arrow();
  if (sqf) lp_polynomial_factor_square_free(P, &factors, &mult, &n); else lp_polynomial_factor_content_free(P, &factors, &mult, &n);
  sb_sp(); sb_ulong(n);
  int in_order = 1;
  for (size_t i = 0; i < n; ++i) { in_order = in_order && lp_polynomial_check_order(factors[i]); sb_sp(); sb_poly(factors[i]); sb_sp(); sb_ulong(mult[i]); lp_polynomial_delete(factors[i]); }
  sb_emit();
  /* printing cannot see a factor that is laid out in another variable order: ask */
  sb_begin("fac", "layout"); sb_sp(); sb_long(stale); sb_arrow(); sb_sp(); sb_long(in_order); sb_emit();
  free(factors); free(mult); free(tokP);
  lp_polynomial_delete(P);
}

int main(int argc, char** argv) {
  uint64_t seed = argc > 1 ? strtoull(argv[1], 0, 10) : 1;
  long n = argc > 2 ? atol(argv[2]) : 1000;
  long only = argc > 3 ? atol(argv[3]) : -1;
  long start = argc > 4 ? atol(argv[4]) : 0;
  lpv_init(); hp_init();
  for (long i = 0; i < n; ++i) {
    if ((only >= 0 && i != only) || i < start) continue;
    lpv_begin_case(seed, i);
    unsigned k = rnd(100);
    if (k < 45) z_case(); else if (k < 75) zp_case(); else m_case();
  }
  hp_done();
  free(sb_buf);
  return 0;
}
