/* Shared harness support: deterministic PRNG, generators, canonical printers,
 * death callbacks.  Every harness is   h_xxx <seed> <ncases> [only_case]
 * and prints one protocol line per observation:
 *     <case> <family> <op> <args...> => <results...>
 */
#ifndef LPV_COMMON_H
#define LPV_COMMON_H

#include <stdio.h>
#include <stdlib.h>
#include <stdint.h>
#include <string.h>
#include <signal.h>
#include <unistd.h>
#include <sys/time.h>
#include <gmp.h>

#ifndef LPV_CASE_TIMEOUT
#define LPV_CASE_TIMEOUT 20
#endif
static uint64_t lpv_state;
static long lpv_case = 0;
static char lpv_cur[4096];
static int lpv_timeout_scale = 1;       /* LPV_TIMEOUT_SCALE: the checker re-runs a case that ran out of budget with a larger one */

static inline uint64_t rnd64(void) {
  uint64_t z = (lpv_state += 0x9e3779b97f4a7c15ULL);
  z = (z ^ (z >> 30)) * 0xbf58476d1ce4e5b9ULL;
  z = (z ^ (z >> 27)) * 0x94d049bb133111ebULL;
  return z ^ (z >> 31);
}
static inline unsigned long rnd(unsigned long n) { return n ? (unsigned long)(rnd64() % n) : 0; }
static inline long rnd_in(long lo, long hi) { return lo + (long)rnd((unsigned long)(hi - lo + 1)); }
static inline int chance(unsigned pct) { return rnd(100) < pct; }

/* per-case reseeding makes any case replayable on its own */
static inline void lpv_begin_case(uint64_t seed, long idx) {
  /* hashed start point: the stream of case i must not be a shifted copy of the stream of case i+1 (splitmix64 advances its
     state by a fixed constant, so any affine function of idx would make all cases windows of one sequence) */
  uint64_t z = (seed * 0x2545F4914F6CDD1DULL) ^ (((uint64_t)idx + 0x632BE59BD9B4E019ULL) * 0xD6E8FEB86659FD93ULL);
  z = (z ^ (z >> 32)) * 0xD6E8FEB86659FD93ULL; z = (z ^ (z >> 32)) * 0xD6E8FEB86659FD93ULL; z ^= z >> 32;
  lpv_state = z;
  rnd64(); rnd64();
  lpv_case = idx;
  lpv_cur[0] = 0;
  { /* watchdog: a case that does not finish is a result (hang).  The budget is CPU time of this process, not wall-clock time:
       a loaded machine must not turn a slow case into a hang */
    struct itimerval it; memset(&it, 0, sizeof it);
    it.it_value.tv_sec = (long)LPV_CASE_TIMEOUT * lpv_timeout_scale;
    setitimer(ITIMER_PROF, &it, 0); }
}

static void lpv_die_note(void) {
  char buf[4300];
  int n = snprintf(buf, sizeof buf, "#died case=%ld during: %s\n", lpv_case, lpv_cur);
  fflush(stdout);
  if (n > 0) { ssize_t w = write(1, buf, (size_t)n); (void)w; }
}
static void lpv_sig(int s) {
  lpv_die_note();
  signal(s, SIG_DFL);
  raise(s);
}
#if defined(__has_feature)
#  if __has_feature(address_sanitizer)
#    define LPV_ASAN 1
#  endif
#endif
#if defined(__SANITIZE_ADDRESS__)
#  define LPV_ASAN 1
#endif
#ifdef LPV_ASAN
void __sanitizer_set_death_callback(void (*cb)(void));
#endif
static void lpv_alarm(int s) {
  (void)s;
  char buf[4300];
  int n = snprintf(buf, sizeof buf, "#died case=%ld hang(>%ds cpu) during: %s\n", lpv_case, LPV_CASE_TIMEOUT * lpv_timeout_scale, lpv_cur);
  fflush(stdout);
  if (n > 0) { ssize_t w = write(1, buf, (size_t)n); (void)w; }
  _exit(99);
}
static inline void lpv_init(void) {
  signal(SIGPROF, lpv_alarm);
  { const char* sc = getenv("LPV_TIMEOUT_SCALE"); if (sc && atoi(sc) > 0) lpv_timeout_scale = atoi(sc); }
  signal(SIGABRT, lpv_sig);
  signal(SIGFPE, lpv_sig);
  signal(SIGSEGV, lpv_sig);
#ifdef LPV_ASAN
  __sanitizer_set_death_callback(lpv_die_note);
#endif
}

/* note what is about to run, so that a crash can be attributed */
#define NOTE(...) snprintf(lpv_cur, sizeof lpv_cur, __VA_ARGS__)

/* ---- integer generators -------------------------------------------------- */

/* kinds: small, boundary powers of two, multi-limb random */
static inline void gen_mpz(mpz_t z) {
  unsigned k = rnd(100);
  if (k < 45) {
    mpz_set_si(z, rnd_in(-9, 9));
  } else if (k < 60) {
    mpz_set_si(z, rnd_in(-1000, 1000));
  } else if (k < 80) {
    /* +-2^e + d */
    unsigned e = chance(50) ? rnd(70) : rnd(140);
    mpz_set_ui(z, 1);
    mpz_mul_2exp(z, z, e);
    long d = rnd_in(-2, 2);
    if (d >= 0) mpz_add_ui(z, z, (unsigned long)d); else mpz_sub_ui(z, z, (unsigned long)(-d));
    if (chance(50)) mpz_neg(z, z);
  } else {
    /* random multi-limb */
    unsigned limbs = 1 + rnd(3);
    mpz_set_ui(z, 0);
    for (unsigned i = 0; i < limbs; ++i) {
      mpz_mul_2exp(z, z, 64);
      uint64_t r = rnd64();
      mpz_t t; mpz_init(t);
      mpz_import(t, 1, 1, sizeof r, 0, 0, &r);
      mpz_add(z, z, t);
      mpz_clear(t);
    }
    if (chance(30)) mpz_tdiv_q_2exp(z, z, rnd(64));
    if (chance(50)) mpz_neg(z, z);
  }
}

static inline void gen_mpz_small(mpz_t z, long bound) { mpz_set_si(z, rnd_in(-bound, bound)); }

/* rational: numerator from gen_mpz, denominator 1, 2^k, small odd, or random */
static inline void gen_mpq(mpq_t q) {
  mpz_t n, d; mpz_init(n); mpz_init(d);
  if (chance(60)) gen_mpz_small(n, 20); else gen_mpz(n);
  unsigned k = rnd(100);
  if (k < 25) mpz_set_ui(d, 1);
  else if (k < 50) { mpz_set_ui(d, 1); mpz_mul_2exp(d, d, rnd(chance(80) ? 6 : 70)); }
  else if (k < 85) mpz_set_ui(d, 1 + rnd(12));
  else { gen_mpz(d); mpz_abs(d, d); if (mpz_sgn(d) == 0) mpz_set_ui(d, 3); }
  mpq_set_num(q, n); mpq_set_den(q, d); mpq_canonicalize(q);
  mpz_clear(n); mpz_clear(d);
}

/* canonical printers */
static inline void pr_mpz(FILE* f, const mpz_t z) { mpz_out_str(f, 10, z); }
static inline void pr_mpq(FILE* f, const mpq_t q) {
  mpz_out_str(f, 10, mpq_numref(q));
  if (mpz_cmp_ui(mpq_denref(q), 1) != 0) { fputc('/', f); mpz_out_str(f, 10, mpq_denref(q)); }
}

static inline int sgn_of(int x) { return x > 0 ? 1 : (x < 0 ? -1 : 0); }

#endif

/* ---- line builder --------------------------------------------------------- */
#ifndef LPV_SB
#define LPV_SB
static char* sb_buf = 0; static size_t sb_len = 0, sb_cap = 0;
static inline void sb_reserve(size_t extra) {
  if (sb_len + extra + 1 > sb_cap) { sb_cap = (sb_len + extra + 1) * 2 + 256; sb_buf = (char*)realloc(sb_buf, sb_cap); }
}
static inline void sb_reset(void) { sb_len = 0; sb_reserve(1); sb_buf[0] = 0; }
static inline void sb_str(const char* s) { size_t n = strlen(s); sb_reserve(n); memcpy(sb_buf + sb_len, s, n + 1); sb_len += n; }
static inline void sb_sp(void) { sb_str(" "); }
static inline void sb_long(long v) { char t[32]; snprintf(t, sizeof t, "%ld", v); sb_str(t); }
static inline void sb_ulong(unsigned long v) { char t[32]; snprintf(t, sizeof t, "%lu", v); sb_str(t); }
static inline void sb_mpz(const mpz_t z) { size_t n = mpz_sizeinbase(z, 10) + 2; sb_reserve(n); mpz_get_str(sb_buf + sb_len, 10, z); sb_len += strlen(sb_buf + sb_len); }
static inline void sb_mpq(const mpq_t q) { sb_mpz(mpq_numref(q)); if (mpz_cmp_ui(mpq_denref(q), 1) != 0) { sb_str("/"); sb_mpz(mpq_denref(q)); } }
/* start a line: "<case> <family> <op>" */
static inline void sb_begin(const char* fam, const char* op) { sb_reset(); sb_long(lpv_case); sb_sp(); sb_str(fam); sb_sp(); sb_str(op); }
static inline void sb_arrow(void) { sb_str(" =>"); NOTE("%.4000s", sb_buf); }
static inline void sb_emit(void) { fputs(sb_buf, stdout); fputc('\n', stdout); lpv_cur[0] = 0; }
#endif
