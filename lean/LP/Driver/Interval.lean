import LP.Model.Interval
import LP.Driver.Scalar
namespace LP.Driver
open LP

/-- end point token: rational `p/q` or dyadic `a@n` -/
def pEnd? (s : String) : Option Rat :=
  if s.contains '@' then (pDy? s).map Dy.toRat else pRat? s

/-- `[q]`, `(a,b]`, … -/
def pQI? (s : String) : Option QI :=
  let n := s.length
  if n < 3 then none else
  let first := s.front
  let last := s.back
  let inner := ((s.drop 1).toString.dropEnd 1).toString
  match inner.splitOn "," with
  | [p] => if first = '[' ∧ last = ']' then (pEnd? p).map QI.point else none
  | [a, b] => do
      let a ← pEnd? a
      let b ← pEnd? b
      let ao ← if first = '(' then some true else if first = '[' then some false else none
      let bo ← if last = ')' then some true else if last = ']' then some false else none
      some (QI.mk' a ao b bo)
  | _ => none

def showQI (I : QI) : String :=
  if I.isPoint then s!"[{showRat I.a}]"
  else s!"{if I.aOpen then "(" else "["}{showRat I.a},{showRat I.b}{if I.bOpen then ")" else "]"}"

/-- canonical comparison (for points only `a` matters) -/
def qiEq (x y : QI) : Bool :=
  if x.isPoint ∧ y.isPoint then x.a = y.a
  else if x.isPoint ∨ y.isPoint then false
  else x.a = y.a ∧ x.b = y.b ∧ x.aOpen = y.aOpen ∧ x.bOpen = y.bOpen

/-- sample points of an interval: closed ends, points close to the ends, the middle, zero -/
def samplePts (I : QI) : List Rat :=
  if I.isPoint then [I.a] else
  let w := I.b - I.a
  let near : List Rat := [I.a + w / 2, I.a + w / 1024, I.b - w / 1024, I.a + w / (2 ^ 70 : Nat), I.b - w / (2 ^ 70 : Nat), I.a + w / 3]
  let ends : List Rat := (if I.aOpen then [] else [I.a]) ++ (if I.bOpen then [] else [I.b])
  let zero : List Rat := if QI.mem 0 I then [0] else []
  (ends ++ zero ++ near).filter (fun x => QI.mem x I)

def kindTag (I : QI) : String :=
  if I.isPoint then "pt" else (if I.aOpen then "o" else "c") ++ (if I.bOpen then "o" else "c")

def judgeBin (tag cls : String) (f : Rat → Rat → Rat) (I1 I2 got want : QI) : Verdict :=
  if !got.wf then .viol cls s!"ill-formed result {showQI got}" else
  if qiEq got want then .ok tag else
    -- property-level oracle: look for a lost point
    let lost := (samplePts I1).flatMap (fun x => (samplePts I2).filterMap (fun y =>
      if QI.mem (f x y) got then none else some (x, y)))
    match lost with
    | (x, y) :: _ => .viol cls s!"lost point x={showRat x} y={showRat y} value={showRat (f x y)} got={showQI got} model={showQI want}"
    | [] =>
      if I1.isPoint ∧ I2.isPoint then .viol cls s!"points not exact got={showQI got} want={showQI want}"
      else .disagree s!"got={showQI got} model={showQI want}"

def judgeUn (tag cls : String) (f : Rat → Rat) (I got want : QI) : Verdict :=
  if !got.wf then .viol cls s!"ill-formed result {showQI got}" else
  if qiEq got want then .ok tag else
    let lost := (samplePts I).filter (fun x => !QI.mem (f x) got)
    match lost with
    | x :: _ => .viol cls s!"lost point x={showRat x} value={showRat (f x)} got={showQI got} model={showQI want}"
    | [] =>
      if I.isPoint then .viol cls s!"point not exact got={showQI got} want={showQI want}"
      else .disagree s!"got={showQI got} model={showQI want}"

/-- families `qi` (rational intervals) and `di` (dyadic intervals): same model. -/
def checkQI (fam op : String) (args res : List String) : Verdict :=
  match args with
  | [] => .skip "no dest"
  | dest :: rest =>
    match op, rest, res with
    | "add", [x, y], [r] =>
      (match pQI? x, pQI? y, pQI? r with
       | some x, some y, some r => judgeBin s!"add/{dest}/{kindTag x}/{kindTag y}" s!"{fam}-add" (· + ·) x y r (QI.add x y)
       | _, _, _ => .skip "bad")
    | "sub", [x, y], [r] =>
      (match pQI? x, pQI? y, pQI? r with
       | some x, some y, some r => judgeBin s!"sub/{dest}/{kindTag x}/{kindTag y}" s!"{fam}-sub" (· - ·) x y r (QI.sub x y)
       | _, _, _ => .skip "bad")
    | "mul", [x, y], [r] =>
      (match pQI? x, pQI? y, pQI? r with
       | some x, some y, some r => judgeBin s!"mul/{dest}/{kindTag x}/{kindTag y}" s!"{fam}-mul" (· * ·) x y r (QI.mul x y)
       | _, _, _ => .skip "bad")
    | "neg", [x], [r] =>
      (match pQI? x, pQI? r with
       | some x, some r => judgeUn s!"neg/{dest}/{kindTag x}" s!"{fam}-neg" (fun v => -v) x r (QI.neg x)
       | _, _ => .skip "bad")
    | "pow", [x, n], [r] =>
      (match pQI? x, pNat? n, pQI? r with
       | some x, some n, some r =>
         judgeUn s!"pow/{dest}/{kindTag x}/{if n = 0 then "0" else if n % 2 = 1 then "odd" else "even"}/s{QI.sgn x}" s!"{fam}-pow" (fun v => v ^ n) x r (QI.pow x n)
       | _, _, _ => .skip "bad")
    | "sgn", [x], [r] =>
      (match pQI? x with
       | some x => expectEq s!"sgn/{kindTag x}" s!"{fam}-sgn" r (toString (QI.sgn x))
       | _ => .skip "bad")
    | "ofint", [a, ao, b, bo], [r] =>
      (match pInt? a, pNat? ao, pInt? b, pNat? bo, pQI? r with
       | some a, some ao, some b, some bo, some r =>
         let want := if a = b then QI.point a else QI.mk' a (ao = 1) b (bo = 1)
         if qiEq r want then .ok "ofint" else .viol s!"{fam}-ofint" s!"got={showQI r} want={showQI want}"
       | _, _, _, _, _ => .skip "bad")
    | _, _, _ => .skip s!"unknown interval op {op}"

end LP.Driver
