import LP.Driver.Value
namespace LP.Driver
open LP LP.QPoly

/-- (id, init, now) triples -/
def pTriples? : List String → Option (List (String × Val × Val))
  | [] => some []
  | id :: i :: n :: rest => do
      let i ← pVal? i
      let n ← pVal? n
      let tl ← pTriples? rest
      some ((id, i, n) :: tl)
  | _ => none

/-- the object still denotes the number it denoted when it was created, and its cached state is sound -/
def stepOK (init now : Val) : Verdict :=
  match valOk now with
  | .ok _ =>
    (match now with
     | .alg r => (match r.reprOk with | some m => Verdict.viol "hist/repr" m | none => .ok "")
     | _ => .ok "") |> fun v =>
    match v with
    | .ok _ =>
      match init.cmp now with
      | none => .skip "cmp out of fuel"
      | some 0 => .ok ""
      | some _ => .viol "hist/changed" "the object no longer denotes the number it was created with"
    | v => v
  | .viol _ m => .viol "hist/repr" m
  | v => v

def checkHist (op : String) (args _res : List String) : Verdict :=
  match op, args with
  | "step", name :: _n :: rest =>
    match pTriples? rest with
    | none => .skip "parse"
    | some ts =>
      let bad := ts.findSome? (fun t => match stepOK t.2.1 t.2.2 with
        | .viol c m => some (Verdict.viol c s!"after {name}: object {t.1}: {m}")
        | _ => none)
      match bad with
      | some v => v
      | none =>
        if ts.any (fun t => match stepOK t.2.1 t.2.2 with | .skip _ => true | _ => false) then .skip "cmp out of fuel"
        else
          let collapsed := ts.any (fun t => match t.2.1, t.2.2 with
            | .alg a, .alg b => a.f.isSome && b.f.isNone
            | _, _ => false)
          let reduced := ts.any (fun t => match t.2.1, t.2.2 with
            | .alg a, .alg b => a.f.isSome && b.f.isSome && a.f != b.f
            | _, _ => false)
          .ok s!"hist/{name}/{if collapsed then "collapsed" else if reduced then "poly-reduced" else "refined"}"
  | _, _ => .skip s!"unknown hist op {op}"

end LP.Driver
