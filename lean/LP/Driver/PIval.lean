import LP.Model.IntervalPoly
import LP.Driver.FSet
import LP.Driver.Poly
import LP.Driver.Interval
import LP.Model.Eval
import LP.Driver.Eval
namespace LP.Driver
open LP

/-- value interval with finite end points as a rational interval -/
def viToQI? (I : VI) : Option QI :=
  match I.a, I.b with
  | .fin a, .fin b => if I.isPoint then some (QI.point a) else some (QI.mk' a I.aOpen b I.bOpen)
  | _, _ => none

/-- `k=I;…` -/
def pBox? (s : String) : Option (List (Nat × QI)) :=
  (s.splitOn ";").mapM (fun e =>
    match e.splitOn "=" with
    | [k, i] => do
        let k ← pNat? k
        let I ← pVI? i
        let Q ← viToQI? I
        some (k, Q)
    | _ => none)

def qiSamples (I : QI) : List Rat :=
  if I.isPoint then [I.a] else
  ([I.a, I.b, (I.a + I.b) / 2, I.a + (I.b - I.a) / 1024, I.b - (I.b - I.a) / 1024, 0].filter (fun x => QI.mem x I))

/-- C15, second part: polynomial over a box, interval form of the sign-condition test -/
def checkPI (op : String) (args res : List String) : Verdict :=
  match op, args, res with
  | "value", [os, ps, bs], [rs] =>
    (match pVarList? os, pPolyRaw? ps, pBox? bs, (pVI? rs).bind viToQI? with
     | some order, some raw, some boxL, some got =>
       let p := MPoly.normalize none raw
       let box : Nat → QI := fun x => ((boxL.find? (fun e => e.1 = x)).map (·.2)).getD (QI.point 0)
       if !got.wf then .viol "pi-value" s!"ill-formed result {showQI got}" else
       match QI.polyValue box order p with
       | none => .skip "variable outside the order"
       | some want =>
         let vs := MPoly.vars p
         let tag := s!"pi/value/v{vs.length}/d{(vs.map (fun v => MPoly.degreeIn v p)).foldl max 0}/{if got.isPoint then "pt" else "iv"}"
         if qiEq got want then .ok tag
         else
           -- property-level oracle: a point of the box whose value is not in the returned interval
           let pts : List (List (Nat × Rat)) := vs.foldl (fun acc v => acc.flatMap (fun pt => (qiSamples (box v)).map (fun s => (v, s) :: pt))) [[]]
           let bad := pts.find? (fun pt => !QI.mem (MPoly.evalRat p (fun v => ((pt.find? (fun e => e.1 = v)).map (·.2)).getD 0)) got)
           match bad with
           | some pt => .viol "pi-value" s!"the value at {pt.map (fun e => s!"x{e.1}={showRat e.2}")} is not in the returned interval {showQI got} (model {showQI want})"
           | none => .disagree s!"got {showQI got} model {showQI want}"
     | _, _, _, _ => .skip "bad")
  | "stale", [_os, ps, bs, us], [rs] =>
    -- lp_polynomial_interval_value on an interval assignment that was filled, reset, and filled again for SOME variables only:
    -- the variables not set again are unconstrained; no value of the polynomial on the box may be lost (property-level oracle)
    (match pPolyRaw? ps, pBox? bs, (if us = "_" then some [] else pList? pNat? us), pVI? rs with
     | some raw, some boxL, some unset, some got =>
       let p := MPoly.normalize none raw
       let vs := MPoly.vars p
       let samplesOf (v : Nat) : List Rat :=
         if unset.contains v then [-1000, 0, 7 / 2, 1000]
         else match boxL.find? (fun e => e.1 = v) with | some e => (qiSamples e.2).take 3 | none => [0]
       let pts : List (List (Nat × Rat)) := vs.foldl (fun acc v => (acc.flatMap (fun pt => (samplesOf v).map (fun s => (v, s) :: pt))).take 400) [[]]
       let bad := pts.find? (fun pt =>
         !(VI.contains got (.fin (MPoly.evalRat p (fun v => ((pt.find? (fun e => e.1 = v)).map (·.2)).getD 0)))))
       match bad with
       | some pt => .viol "pi-value" s!"after a reset the value at {pt.map (fun e => s!"x{e.1}={showRat e.2}")} is not in the returned interval {rs} (variables {unset} were not set again)"
       | none => .ok s!"pi/stale/{if (vs.any (fun v => unset.contains v)) then "mentions-unset" else "plain"}"
     | _, _, _, _ => .skip "bad")
  | "consint", [cs, is], [r] =>
    (match pNat? cs, pVI? is with
     | some c, some I =>
       let want := VI.consistentInterval c I
       let tag := s!"pi/consint/{c}/{viTag I}/{if want then "yes" else "no"}"
       if r = (if want then "1" else "0") then .ok tag
       else if r = "1" then
         -- answered true: every point must satisfy the condition; look for a point that does not
         let bad := (viSamples I).find? (fun x => !(Eval.consistent c (sgnQ x)))
         match bad with
         | some x => .viol "pi-consint" s!"answered true but {showRat x} lies in the interval and violates the condition"
         | none => .disagree "answered true where the mirror answers false"
       else .disagree "answered false where the mirror answers true"
     | _, _ => .skip "bad")
  | _, _, _ => .skip s!"unknown pi op {op}"

/-! ### value intervals with irrational algebraic end points (property-level oracle: no point may be lost) -/

abbrev VIv := Val × Bool × Val × Bool

/-- exact membership of a rational in a value interval; `none` = comparison out of fuel -/
def vivMem (I : VIv) (x : Rat) : Option Bool :=
  match Val.cmp I.1 (.rat x), Val.cmp (.rat x) I.2.2.1 with
  | some c1, some c2 => some ((c1 < 0 || (c1 == 0 && !I.2.1)) && (c2 < 0 || (c2 == 0 && !I.2.2.2)))
  | _, _ => none

/-- rational approximations of an end point from below and from above (the value itself if rational) -/
def valApprox (v : Val) : List Rat :=
  match v with
  | .int z => [(z : Rat)]
  | .dy q => [q]
  | .rat q => [q]
  | .alg r => [r.l, r.u]
  | _ => []

/-- rational sample points of the interval: closed rational ends, points just inside each end, the middle, zero -/
def vivSamples (I : VIv) : List Rat :=
  let lo := valApprox I.1
  let hi := valApprox I.2.2.1
  let cands : List Rat := lo ++ hi ++ [0] ++
    (lo.flatMap (fun a => hi.flatMap (fun b => [(a + b) / 2, a + (b - a) / 1024, b - (b - a) / 1024, a + (b - a) / 3])))
  cands.filter (fun x => vivMem I x == some true)

def vivWf (I : VIv) : Bool :=
  match Val.cmp I.1 I.2.2.1 with
  | some c => c < 0 || (c == 0 && !I.2.1 && !I.2.2.2)
  | none => true

/-- the attained finite end points of a value interval (closed ends, the point of a point interval) -/
def vivAttained (I : VIv) : List Val :=
  let fin (v : Val) : Bool := match v with | .int _ | .dy _ | .rat _ | .alg _ => true | _ => false
  (if !I.2.1 && fin I.1 then [I.1] else []) ++ (if !I.2.2.2 && fin I.2.2.1 && (Val.cmp I.1 I.2.2.1 != some 0) then [I.2.2.1] else [])

/-- exact sign of `x ⊕ y − e` for finite values (x0 := x, x1 := y, x2 := e), by the proved sign procedure -/
def vivSignAt (mul : Bool) (x y e : Val) : Option Int :=
  match x.toZ?, y.toZ?, e.toZ? with
  | some a, some b, some c =>
    let lhs : MPoly := if mul then [([(0, 1), (1, 1)], 1)] else [([(0, 1)], 1), ([(1, 1)], 1)]
    Eval.exactSign (MPoly.normalize none (lhs ++ [([(2, 1)], -1)])) [(0, a), (1, b), (2, c)]
  | _, _, _ => none

/-- exact sign of `x^n − e` (x0 := x, x2 := e) -/
def vivSignPow (n : Nat) (x e : Val) : Option Int :=
  match x.toZ?, e.toZ? with
  | some a, some c =>
    let lhs : MPoly := if n = 0 then [([], 1)] else [([(0, n)], 1)]
    Eval.exactSign (MPoly.normalize none (lhs ++ [([(2, 1)], -1)])) [(0, a), (2, c)]
  | _, _ => none

/-- exact membership of `x^n` in `R` -/
def vivMemPow (n : Nat) (x : Val) (R : VIv) : Option Bool :=
  let lowOk : Option Bool := match R.1 with
    | .minf => some true
    | .pinf | .none => some false
    | e => (vivSignPow n x e).map (fun s => s > 0 || (s == 0 && !R.2.1))
  let upOk : Option Bool := match R.2.2.1 with
    | .pinf => some true
    | .minf | .none => some false
    | e => (vivSignPow n x e).map (fun s => s < 0 || (s == 0 && !R.2.2.2))
  match lowOk, upOk with
  | some a, some b => some (a && b)
  | _, _ => none

/-- exact membership of `x ⊕ y` in the value interval `R`; `none` = undecided (infinite end of a kind not handled, fuel) -/
def vivMemExact (mul : Bool) (x y : Val) (R : VIv) : Option Bool :=
  let lowOk : Option Bool := match R.1 with
    | .minf => some true
    | .pinf | .none => some false
    | e => (vivSignAt mul x y e).map (fun s => s > 0 || (s == 0 && !R.2.1))
  let upOk : Option Bool := match R.2.2.1 with
    | .pinf => some true
    | .minf | .none => some false
    | e => (vivSignAt mul x y e).map (fun s => s < 0 || (s == 0 && !R.2.2.2))
  match lowOk, upOk with
  | some a, some b => some (a && b)
  | _, _ => none

def checkVIA (op : String) (args res : List String) : Verdict :=
  let lost (pts : List (String × Rat)) (R : VIv) : Option String :=
    pts.findSome? (fun p => match vivMem R p.2 with | some false => some p.1 | _ => none)
  match op, args, res with
  | "add", [a, b], [r] | "mul", [a, b], [r] =>
    (match pVInt? a, pVInt? b, pVInt? r with
     | some A, some B, some R =>
       if !vivWf R then .viol s!"via-{op}" s!"ill-formed result {r}" else
       let pts := (vivSamples A).flatMap (fun x => (vivSamples B).map (fun y =>
         (s!"{showRat x}{if op = "add" then "+" else "*"}{showRat y}", if op = "add" then x + y else x * y)))
       -- attained end points, irrational ones included: x ⊕ y must lie in the result (exact sign of x ⊕ y − end point)
       let isAlg (v : Val) : Bool := match v with | .alg _ => true | _ => false
       -- … paired with the attained end points and a few rational sample points of the other operand
       let cand (I : VIv) : List Val := vivAttained I ++ ((vivSamples I).take 3).map Val.rat
       let exact := (cand A).flatMap (fun x => (cand B).filterMap (fun y =>
         if isAlg x || isAlg y then some (x, y) else none))
       let lostExact := exact.find? (fun xy => vivMemExact (op = "mul") xy.1 xy.2 R == some false)
       match lost pts R, lostExact with
       | some w, _ => .viol s!"via-{op}" s!"lost point {w}: not in the returned interval {r}"
       | none, some _ => .viol s!"via-{op}" s!"lost an attained end point: the {if op = "add" then "sum" else "product"} of two attained (irrational) end points is not in the returned interval {r}"
       | none, none => .ok s!"via/{op}/{if pts.isEmpty then "nosample" else "sampled"}{if exact.isEmpty then "" else "/exact-ends"}"
     | _, _, _ => .skip "bad")
  | "pow", [a, n], [r] =>
    (match pVInt? a, pNat? n, pVInt? r with
     | some A, some n, some R =>
       if !vivWf R then .viol "via-pow" s!"ill-formed result {r}" else
       let pts := (vivSamples A).map (fun x => (s!"{showRat x}^{n}", x ^ n))
       let isAlg (v : Val) : Bool := match v with | .alg _ => true | _ => false
       let ends := (vivAttained A).filter isAlg
       let lostEnd := ends.find? (fun x => vivMemPow n x R == some false)
       match lost pts R, lostEnd with
       | some w, _ => .viol "via-pow" s!"lost point {w}: not in the returned interval {r}"
       | none, some _ => .viol "via-pow" s!"lost an attained end point: the {n}-th power of an attained irrational end point is not in the returned interval {r}"
       | none, none => .ok s!"via/pow/{n}{if pts.isEmpty then "/nosample" else ""}{if ends.isEmpty then "" else "/exact-ends"}"
     | _, _, _ => .skip "bad")
  | _, _, _ => .skip s!"unknown via op {op}"

end LP.Driver
