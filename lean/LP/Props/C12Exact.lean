/-
  C12 — the reference feasible set `Eval.feasible` is the exact solution set: composition of
  `C11_rootsUnder_exact` (roots), `C10_sign_exact` (signs at rational sample points), sign constancy between
  consecutive roots (intermediate value theorem) and `C12_sweep`.
-/
import LP.Props.C12
import LP.Props.C11Roots

namespace LP
open QPoly MPoly

namespace Eval

/-- the list of representations denotes the list of reals -/
def DenList (rs : List Alg) (xs : List ℝ) : Prop :=
  List.Forall₂ (fun (al : Alg) (r : ℝ) => al.Valid ∧ al.Den r) rs xs

/-! ### refinement and separation keep the numbers -/

theorem mapM_refine_den : ∀ (rs rs' : List Alg) (xs : List ℝ), DenList rs xs → rs.mapM Alg.refine = some rs' →
    DenList rs' xs := by
  intro rs
  induction rs with
  | nil =>
    intro rs' xs hd h
    simp only [List.mapM_nil, Option.pure_def, Option.some.injEq] at h
    subst h; exact hd
  | cons r rs ih =>
    intro rs' xs hd h
    cases hd with
    | cons h1 h2 =>
      rw [List.mapM_cons] at h
      cases hr : Alg.refine r with
      | none => rw [hr] at h; simp at h
      | some r' =>
        rw [hr] at h
        cases hrest : rs.mapM Alg.refine with
        | none => rw [hrest] at h; simp at h
        | some rest' =>
          rw [hrest] at h
          simp only [Option.pure_def, Option.bind_eq_bind, Option.bind_some, Option.some.injEq] at h
          subst h
          obtain ⟨d, v⟩ := Alg.refine_sound r r' _ h1.1 h1.2 hr
          exact List.Forall₂.cons ⟨v, d⟩ (ih rest' _ h2 hrest)

/-- consecutive isolating intervals are disjoint with a gap -/
def Sep (rs : List Alg) : Prop := (rs.zip rs.tail).all (fun p => p.1.hi < p.2.lo) = true

theorem sep_cons2 (r0 r1 : Alg) (rest : List Alg) : Sep (r0 :: r1 :: rest) ↔ (r0.hi < r1.lo ∧ Sep (r1 :: rest)) := by
  unfold Sep
  simp [List.zip_cons_cons, List.all_cons]

theorem separate_spec : ∀ (fuel : ℕ) (rs rs' : List Alg) (xs : List ℝ), DenList rs xs → separate fuel rs = some rs' →
    DenList rs' xs ∧ Sep rs' := by
  intro fuel
  induction fuel with
  | zero => intro rs rs' xs _ h; simp [separate] at h
  | succ fuel ih =>
    intro rs rs' xs hd h
    rw [separate] at h
    by_cases hs : (rs.zip rs.tail).all (fun p => p.1.hi < p.2.lo) = true
    · rw [if_pos hs] at h
      simp only [Option.some.injEq] at h
      subst h
      exact ⟨hd, hs⟩
    · rw [if_neg hs] at h
      cases hm : rs.mapM Alg.refine with
      | none => rw [hm] at h; simp at h
      | some rs1 =>
        rw [hm] at h
        simp only [Option.bind_some] at h
        exact ih rs1 rs' xs (mapM_refine_den rs rs1 xs hd hm) h

/-! ### sample points -/

theorem den_lo_hi (a : Alg) (x : ℝ) (h : a.Den x) : (a.lo : ℝ) ≤ x ∧ x ≤ (a.hi : ℝ) := by
  cases a with
  | rat q => have : x = (q : ℝ) := h; rw [this]; exact ⟨le_refl _, le_refl _⟩
  | root f l u => exact ⟨le_of_lt h.1, le_of_lt h.2.1⟩

/-- the sample points after `prev`: the k-th lies above the k-th of (xp :: ys) and below the k-th of ys -/
theorem samplesAux_spec : ∀ (rest : List Alg) (ys : List ℝ) (prev : Alg) (xp : ℝ), prev.Den xp → DenList rest ys →
    Sep (prev :: rest) →
    (samplesAux prev rest).length = rest.length + 1 ∧
    ∀ k, k ≤ rest.length → ∃ q, (samplesAux prev rest)[k]? = some q ∧
      (∀ x, (xp :: ys)[k]? = some x → x < (q : ℝ)) ∧ (∀ x, ys[k]? = some x → (q : ℝ) < x) := by
  intro rest
  induction rest with
  | nil =>
    intro ys prev xp hp hd _
    cases hd
    refine ⟨rfl, fun k hk => ?_⟩
    have hk0 : k = 0 := by simpa using hk
    subst hk0
    refine ⟨prev.hi + 1, rfl, ?_, ?_⟩
    · intro x hx
      simp only [List.getElem?_cons_zero, Option.some.injEq] at hx
      subst hx
      have := (den_lo_hi prev xp hp).2
      push_cast; linarith
    · intro x hx; simp at hx
  | cons r rest ih =>
    intro ys prev xp hp hd hsep
    cases hd with
    | cons h1 h2 =>
      rename_i y ys'
      rw [sep_cons2] at hsep
      obtain ⟨hlen, hk⟩ := ih ys' r y h1.2 h2 hsep.2
      refine ⟨by simp [samplesAux, hlen], fun k hk' => ?_⟩
      cases k with
      | zero =>
        refine ⟨(prev.hi + r.lo) / 2, rfl, ?_, ?_⟩
        · intro x hx
          simp only [List.getElem?_cons_zero, Option.some.injEq] at hx
          subst hx
          have a1 := (den_lo_hi prev xp hp).2
          have a2 : (prev.hi : ℝ) < (r.lo : ℝ) := by exact_mod_cast hsep.1
          push_cast; linarith
        · intro x hx
          simp only [List.getElem?_cons_zero, Option.some.injEq] at hx
          subst hx
          have a1 := (den_lo_hi r y h1.2).1
          have a2 : (prev.hi : ℝ) < (r.lo : ℝ) := by exact_mod_cast hsep.1
          push_cast; linarith
      | succ k =>
        obtain ⟨q, hq, hq1, hq2⟩ := hk k (by simpa using hk')
        refine ⟨q, by simpa [samplesAux] using hq, ?_, ?_⟩
        · intro x hx
          rw [List.getElem?_cons_succ] at hx
          exact hq1 x hx
        · intro x hx
          rw [List.getElem?_cons_succ] at hx
          exact hq2 x hx

/-- the sample points: the k-th lies above root k−1 and below root k -/
theorem samples_spec (rs : List Alg) (xs : List ℝ) (hd : DenList rs xs) (hsep : Sep rs) :
    (samples rs).length = rs.length + 1 ∧
    ∀ k, k ≤ rs.length → ∃ q, (samples rs)[k]? = some q ∧
      (∀ j x, k = j + 1 → xs[j]? = some x → x < (q : ℝ)) ∧ (∀ x, xs[k]? = some x → (q : ℝ) < x) := by
  cases hd with
  | nil =>
    refine ⟨rfl, fun k hk => ?_⟩
    have hk0 : k = 0 := by simpa using hk
    subst hk0
    exact ⟨0, rfl, fun j x hj => by omega, fun x hx => by simp at hx⟩
  | cons h1 h2 =>
    rename_i r0 x0 rest ys
    obtain ⟨hlen, hk⟩ := samplesAux_spec rest ys r0 x0 h1.2 h2 hsep
    refine ⟨by simp [samples, hlen], fun k hk' => ?_⟩
    cases k with
    | zero =>
      refine ⟨r0.lo - 1, rfl, fun j x hj => by omega, ?_⟩
      intro x hx
      simp only [List.getElem?_cons_zero, Option.some.injEq] at hx
      subst hx
      have := (den_lo_hi r0 x0 h1.2).1
      push_cast; linarith
    | succ k =>
      obtain ⟨q, hq, hq1, hq2⟩ := hk k (by simpa using hk')
      refine ⟨q, by simpa [samples] using hq, ?_, ?_⟩
      · intro j x hj hx
        have : j = k := by omega
        subst this
        exact hq1 x hx
      · intro x hx
        rw [List.getElem?_cons_succ] at hx
        exact hq2 x hx

/-! ### interleaving -/

theorem flatMap_zero_even : ∀ (rest : List Int) (k : ℕ), k < rest.length →
    (rest.flatMap (fun s => [0, s]))[2 * k]? = some 0 := by
  intro rest
  induction rest with
  | nil => intro k hk; simp at hk
  | cons s rest ih =>
    intro k hk
    cases k with
    | zero => simp
    | succ k =>
      have : 2 * (k + 1) = 2 * k + 1 + 1 := by ring
      rw [List.flatMap_cons, this]
      simp only [List.cons_append, List.nil_append, List.getElem?_cons_succ]
      exact ih k (by simpa using hk)

theorem flatMap_zero_odd : ∀ (rest : List Int) (k : ℕ),
    (rest.flatMap (fun s => [0, s]))[2 * k + 1]? = rest[k]? := by
  intro rest
  induction rest with
  | nil => intro k; simp
  | cons s rest ih =>
    intro k
    cases k with
    | zero => simp
    | succ k =>
      have : 2 * (k + 1) + 1 = 2 * k + 1 + 1 + 1 := by ring
      rw [List.flatMap_cons, this]
      simp only [List.cons_append, List.nil_append, List.getElem?_cons_succ]
      exact ih k

theorem interleave_even (ss : List Int) (k : ℕ) : (interleave ss)[2 * k]? = ss[k]? := by
  cases ss with
  | nil => simp [interleave]
  | cons s0 rest =>
    cases k with
    | zero => simp [interleave]
    | succ k =>
      have : 2 * (k + 1) = 2 * k + 1 + 1 := by ring
      rw [this]
      simp only [interleave, List.getElem?_cons_succ]
      exact flatMap_zero_odd rest k

theorem interleave_odd (ss : List Int) (k : ℕ) (hk : k + 1 < ss.length) : (interleave ss)[2 * k + 1]? = some 0 := by
  cases ss with
  | nil => simp at hk
  | cons s0 rest =>
    simp only [interleave, List.getElem?_cons_succ]
    exact flatMap_zero_even rest k (by simpa using hk)

theorem flatMap_zero_length (rest : List Int) : (rest.flatMap (fun s => [0, s])).length = 2 * rest.length := by
  induction rest with
  | nil => rfl
  | cons s rest ih => simp [List.flatMap_cons, ih]; ring

theorem interleave_length (ss : List Int) (n : ℕ) (h : ss.length = n + 1) : (interleave ss).length = 2 * n + 1 := by
  cases ss with
  | nil => simp at h
  | cons s0 rest =>
    simp only [interleave, List.length_cons, flatMap_zero_length]
    simp only [List.length_cons] at h
    omega

/-! ### sign constancy between consecutive roots -/

theorem sign_const (f : ℝ → ℝ) (hf : Continuous f) (a b : ℝ) (hno : ∀ x, min a b ≤ x → x ≤ max a b → f x ≠ 0)
    (s : Int) (h : SignIs s (f a)) : SignIs s (f b) := by
  have ha : f a ≠ 0 := hno a (min_le_left _ _) (le_max_left _ _)
  have hb : f b ≠ 0 := hno b (min_le_right _ _) (le_max_right _ _)
  have key : ¬ (0 ∈ Set.uIcc (f a) (f b)) := by
    intro h0
    obtain ⟨x, hx, hx0⟩ := intermediate_value_uIcc (hf.continuousOn) h0
    rw [Set.uIcc, Set.mem_Icc] at hx
    exact hno x hx.1 hx.2 hx0
  rw [Set.uIcc, Set.mem_Icc, not_and_or] at key
  rcases h with ⟨rfl, hv⟩ | ⟨rfl, hv⟩ | ⟨rfl, hv⟩
  · left; refine ⟨rfl, ?_⟩
    rcases lt_or_gt_of_ne hb with hb' | hb'
    · exfalso
      rcases key with k | k
      · exact k (le_of_lt (lt_of_le_of_lt (min_le_right _ _) hb'))
      · exact k (le_of_lt (lt_of_lt_of_le hv (le_max_left _ _)))
    · exact hb'
  · right; left; refine ⟨rfl, ?_⟩
    rcases lt_or_gt_of_ne hb with hb' | hb'
    · exact hb'
    · exfalso
      rcases key with k | k
      · exact k (le_of_lt (lt_of_le_of_lt (min_le_left _ _) hv))
      · exact k (le_of_lt (lt_of_lt_of_le hb' (le_max_right _ _)))
  · exact absurd hv ha

/-! ### indexing helpers -/

theorem forall₂_index {α β : Type} {R : α → β → Prop} : ∀ {l : List α} {l' : List β}, List.Forall₂ R l l' →
    ∀ (k : ℕ) (a : α), l[k]? = some a → ∃ b, l'[k]? = some b ∧ R a b := by
  intro l l' h
  induction h with
  | nil => intro k a hk; simp at hk
  | cons h1 _ ih =>
    intro k a hk
    cases k with
    | zero => simp only [List.getElem?_cons_zero, Option.some.injEq] at hk; subst hk; exact ⟨_, rfl, h1⟩
    | succ k => simp only [List.getElem?_cons_succ] at hk ⊢; exact ih k a hk

theorem mapM_forall₂ {α β : Type} (f : α → Option β) : ∀ (l : List α) (l' : List β), l.mapM f = some l' →
    List.Forall₂ (fun a b => f a = some b) l l' := by
  intro l
  induction l with
  | nil =>
    intro l' h
    simp only [List.mapM_nil, Option.pure_def, Option.some.injEq] at h
    subst h; exact List.Forall₂.nil
  | cons a l ih =>
    intro l' h
    rw [List.mapM_cons] at h
    cases ha : f a with
    | none => rw [ha] at h; simp at h
    | some b =>
      rw [ha] at h
      cases hl : l.mapM f with
      | none => rw [hl] at h; simp at h
      | some bs =>
        rw [hl] at h
        simp only [Option.pure_def, Option.bind_eq_bind, Option.bind_some, Option.some.injEq] at h
        subst h
        exact List.Forall₂.cons ha (ih bs hl)

/-- strictly increasing lists: index order = value order -/
theorem sorted_index (xs : List ℝ) (hs : xs.Pairwise (fun (a b : ℝ) => a < b)) (i j : ℕ) (x y : ℝ) (hi : xs[i]? = some x) (hj : xs[j]? = some y) :
    (i < j → x < y) ∧ (x < y → i < j) := by
  have mono : ∀ (i j : ℕ) (x y : ℝ), xs[i]? = some x → xs[j]? = some y → i < j → x < y := by
    intro i j x y hi hj hij
    obtain ⟨hi', rfl⟩ := List.getElem?_eq_some_iff.1 hi
    obtain ⟨hj', rfl⟩ := List.getElem?_eq_some_iff.1 hj
    exact List.pairwise_iff_getElem.1 hs i j hi' hj' hij
  refine ⟨mono i j x y hi hj, fun hxy => ?_⟩
  rcases lt_trichotomy i j with h | h | h
  · exact h
  · subst h; rw [hi] at hj; cases hj; exact absurd hxy (lt_irrefl _)
  · exact absurd (mono j i y x hj hi h) (not_lt.2 (le_of_lt hxy))

/-- value of the condition `c` on a real -/
def CondHolds (c : ℕ) (v : ℝ) : Prop :=
  match c with | 0 => v < 0 | 1 => v ≤ 0 | 2 => v = 0 | 3 => v ≠ 0 | 4 => 0 < v | _ => 0 ≤ v

theorem condHolds_negate (c : ℕ) (v : ℝ) : CondHolds (negateCond c) v ↔ ¬ CondHolds c v := by
  match c with
  | 0 => simp [CondHolds, negateCond]
  | 1 => simp [CondHolds, negateCond]
  | 2 => simp [CondHolds, negateCond]
  | 3 => simp [CondHolds, negateCond]
  | 4 => simp [CondHolds, negateCond]
  | (n + 5) => simp [CondHolds, negateCond]

/-- **signs of the cells**: the interleaved sample signs are the signs of f on the 2n+1 cells -/
theorem cellSign_correct (f : ℝ → ℝ) (hf : Continuous f) (xs : List ℝ) (hen : Enumerates xs (fun r => f r = 0))
    (qs : List ℚ) (ss : List Int)
    (hq : ∀ k, k ≤ xs.length → ∃ q, qs[k]? = some q ∧
      (∀ j x, k = j + 1 → xs[j]? = some x → x < (q : ℝ)) ∧ (∀ x, xs[k]? = some x → (q : ℝ) < x))
    (hs : ∀ (k : ℕ) (q : ℚ), qs[k]? = some q → ∃ s, ss[k]? = some s ∧ SignIs s (f (q : ℝ)))
    (hslen : ss.length = xs.length + 1)
    (i : ℕ) (hi : i ≤ 2 * xs.length) (v : ℝ) (hmem : cellMem (fun i => xs.getD i 0) xs.length i v) :
    ∃ s, (interleave ss)[i]? = some s ∧ SignIs s (f v) := by
  set n := xs.length with hn
  set r : ℕ → ℝ := fun i => xs.getD i 0 with hr
  have hrx : ∀ j, j < n → xs[j]? = some (r j) := by
    intro j hj
    rw [hr]; simp only
    rw [List.getD_eq_getElem?_getD, List.getElem?_eq_getElem (by omega)]; rfl
  rcases Nat.even_or_odd' i with ⟨k, rfl | rfl⟩
  · -- open cell between root k-1 and root k
    have hk : k ≤ n := by omega
    obtain ⟨q, hqk, hq1, hq2⟩ := hq k hk
    obtain ⟨s, hsk, hsig⟩ := hs k q hqk
    refine ⟨s, by rw [interleave_even]; exact hsk, ?_⟩
    -- bounds on v
    have hvlo : ∀ j, k = j + 1 → r j < v := by
      intro j hj
      have := hmem.1
      rw [hj, lowerOK_even_succ] at this
      exact this
    have hvhi : k < n → v < r k := by
      intro hkn
      have := hmem.2
      rw [upperOK_even _ _ _ _ hkn] at this
      exact this
    apply sign_const f hf (q : ℝ) v _ s hsig
    intro x hx1 hx2 hx0
    -- x is a root, hence some r j, strictly between r (k-1) and r k
    have hxm : x ∈ xs := (hen.2 x).2 hx0
    obtain ⟨j, hj, hjx⟩ := List.getElem_of_mem hxm
    have hjx' : xs[j]? = some x := by rw [List.getElem?_eq_getElem hj, hjx]
    have hlow : ∀ j', k = j' + 1 → r j' < x := by
      intro j' hj'
      have a1 := hq1 j' (r j') hj' (hrx j' (by omega))
      have a2 := hvlo j' hj'
      exact lt_of_lt_of_le (lt_min a1 a2) hx1
    have hhigh : k < n → x < r k := by
      intro hkn
      have a1 := hq2 (r k) (hrx k hkn)
      have a2 := hvhi hkn
      exact lt_of_le_of_lt hx2 (max_lt a1 a2)
    -- index contradiction
    have hjk : j < k := by
      by_contra hge
      push Not at hge
      have hkn : k < n := lt_of_le_of_lt hge hj
      have := hhigh hkn
      rcases Nat.lt_or_ge k j with h | h
      · have := ((sorted_index xs hen.1 k j (r k) x (hrx k hkn) hjx').1 h); linarith
      · have : j = k := le_antisymm h hge
        subst this
        rw [hrx j hkn] at hjx'; cases hjx'; linarith
    cases k with
    | zero => omega
    | succ k' =>
      have := hlow k' rfl
      have hk'n : k' < n := by omega
      rcases Nat.lt_or_ge j k' with h | h
      · have := ((sorted_index xs hen.1 j k' x (r k') hjx' (hrx k' hk'n)).1 h); linarith
      · have : j = k' := by omega
        subst this
        rw [hrx j hk'n] at hjx'; cases hjx'; linarith
  · -- the root k
    have hk : k < n := by omega
    have hv : v = r k := by
      have h1 := hmem.1
      have h2 := hmem.2
      rw [lowerOK_odd] at h1
      rw [upperOK_odd] at h2
      exact le_antisymm h2 h1
    have hroot : f v = 0 := by
      rw [hv]
      apply (hen.2 (r k)).1
      have := hrx k hk
      exact List.mem_of_getElem? this
    refine ⟨0, interleave_odd ss k (by omega), ?_⟩
    right; right; exact ⟨rfl, hroot⟩

/-- **C12**: the reference feasible set is the exact solution set of the (possibly negated) sign condition, for a
    polynomial that does not vanish identically under the assignment. -/
theorem C12_feasible_exact (p : MPoly) (y : ℕ) (a : Asg) (ν : ℕ → ℝ) (cond : ℕ) (neg : Bool) (cap : ℕ)
    (rs : List Alg) (S : List SInt)
    (hden : AsgDen a ν) (hroots : ∀ xz ∈ a, evalR (ZAlg.toQ xz.2.f) (ν xz.1) = 0) (hya : ∀ xz ∈ a, xz.1 ≠ y)
    (hzp : ∀ t ∈ p, ∀ pr ∈ t.1, pr.1 ≠ zVar) (hza : ∀ xz ∈ a, xz.1 ≠ zVar) (hyz : y ≠ zVar)
    (hnz : identicallyZero p y a = some false)
    (h : feasible p y a cond neg cap = some (rs, S)) :
    ∃ xs : List ℝ, DenList rs xs ∧ Enumerates xs (fun r => specR p ν y r = 0) ∧
      ∀ v : ℝ, (∃ I ∈ S, SInt.mem (fun i => xs.getD i 0) I v) ↔
        (if neg then ¬ CondHolds cond (specR p ν y v) else CondHolds cond (specR p ν y v)) := by
  unfold feasible at h
  cases hru : rootsUnder p y a cap with
  | none => rw [hru] at h; simp at h
  | some rs0 =>
    rw [hru] at h
    simp only at h
    cases hsp : separate 100 rs0 with
    | none => rw [hsp] at h; simp at h
    | some rs1 =>
      rw [hsp] at h
      simp only at h
      cases hcs : cellSigns p y a rs1 with
      | none => rw [hcs] at h; simp at h
      | some signs =>
        rw [hcs] at h
        simp only [Option.some.injEq, Prod.mk.injEq] at h
        obtain ⟨h1, h2⟩ := h
        subst h1
        obtain ⟨xs, hf, hen⟩ := C11_rootsUnder_exact p y a ν cap rs0 hden hroots hya hzp hza hyz hnz hru
        obtain ⟨hd1, hsep⟩ := separate_spec 100 rs0 rs1 xs hf hsp
        refine ⟨xs, hd1, hen, fun v => ?_⟩
        have hlen : rs1.length = xs.length := List.Forall₂.length_eq hd1
        obtain ⟨hqlen, hq⟩ := samples_spec rs1 xs hd1 hsep
        -- signs at the sample points
        unfold cellSigns at hcs
        cases hmm : (samples rs1).mapM (fun q => exactSign p ((y, ZAlg.ofRat q) :: a)) with
        | none => rw [hmm] at hcs; simp at hcs
        | some ss =>
          rw [hmm] at hcs
          simp only [Option.map_some, Option.some.injEq] at hcs
          have hF := mapM_forall₂ _ _ _ hmm
          have hslen : ss.length = xs.length + 1 := by rw [← List.Forall₂.length_eq hF, hqlen, hlen]
          have hs : ∀ (k : ℕ) (q : ℚ), (samples rs1)[k]? = some q → ∃ s, ss[k]? = some s ∧ SignIs s (specR p ν y (q : ℝ)) := by
            intro k q hk
            obtain ⟨s, hs1, hs2⟩ := forall₂_index hF k q hk
            exact ⟨s, hs1, sign_at_rat p a ν y q s hden hroots hya hzp hza hyz hs2⟩
          have hcell := cellSign_correct (specR p ν y) (continuous_specR p ν y) xs hen (samples rs1) ss
            (by intro k hk; exact hq k (by omega)) hs hslen
          set c := (if neg then negateCond cond else cond) with hc
          have hsl : (signs.map (consistent c)).length = 2 * xs.length + 1 := by
            rw [List.length_map, ← hcs]; exact interleave_length ss _ hslen
          have hsorted : ∀ i j, i < j → j < xs.length → (fun i => xs.getD i 0) i < (fun i => xs.getD i 0) j := by
            intro i j hij hj
            have hi' : xs[i]? = some (xs.getD i 0) := by
              rw [List.getD_eq_getElem?_getD, List.getElem?_eq_getElem (by omega)]; rfl
            have hj' : xs[j]? = some (xs.getD j 0) := by
              rw [List.getD_eq_getElem?_getD, List.getElem?_eq_getElem (by omega)]; rfl
            exact (sorted_index xs hen.1 i j _ _ hi' hj').1 hij
          rw [← h2, hlen, C12_sweep _ xs.length hsorted _ hsl v]
          have hfinal : (∃ i, (signs.map (consistent c))[i]? = some true ∧ cellMem (fun i => xs.getD i 0) xs.length i v) ↔
              CondHolds c (specR p ν y v) := by
            constructor
            · rintro ⟨i, hi1, hi2⟩
              have hile : i ≤ 2 * xs.length := by
                have : i < (signs.map (consistent c)).length := by
                  by_contra hge
                  rw [List.getElem?_eq_none (by omega)] at hi1; cases hi1
                omega
              obtain ⟨s, hs1, hs2⟩ := hcell i hile v hi2
              rw [List.getElem?_map, ← hcs, hs1] at hi1
              simp only [Option.map_some, Option.some.injEq] at hi1
              exact (C10_consistent c s _ hs2).1 hi1
            · intro hcv
              obtain ⟨i, hile, hi2⟩ := cell_exists _ xs.length hsorted v
              obtain ⟨s, hs1, hs2⟩ := hcell i hile v hi2
              refine ⟨i, ?_, hi2⟩
              rw [List.getElem?_map, ← hcs, hs1]
              simp only [Option.map_some, Option.some.injEq]
              exact (C10_consistent c s _ hs2).2 hcv
          rw [hfinal, hc]
          cases neg with
          | false => simp
          | true => simp only [if_true]; exact condHolds_negate cond _

/-! ### specialisations that vanish identically -/

theorem mono_degree_le (y : ℕ) : ∀ (p : MPoly) (acc : ℕ),
    acc ≤ p.foldl (fun acc t => max acc (Mono.degreeIn y t.1)) acc ∧
    ∀ t ∈ p, Mono.degreeIn y t.1 ≤ p.foldl (fun acc t => max acc (Mono.degreeIn y t.1)) acc := by
  intro p
  induction p with
  | nil => intro acc; exact ⟨le_refl _, fun t ht => by simp at ht⟩
  | cons t p ih =>
    intro acc
    rw [List.foldl_cons]
    obtain ⟨h1, h2⟩ := ih (max acc (Mono.degreeIn y t.1))
    refine ⟨le_trans (le_max_left _ _) h1, fun t' ht' => ?_⟩
    rw [List.mem_cons] at ht'
    rcases ht' with rfl | ht'
    · exact le_trans (le_max_right _ _) h1
    · exact h2 t' ht'

theorem rawCoeff_free (y k z : ℕ) (p : MPoly) (hz : ∀ t ∈ p, ∀ pr ∈ t.1, pr.1 ≠ z) :
    ∀ t ∈ MPoly.rawCoeff y k p, ∀ pr ∈ t.1, pr.1 ≠ z := by
  intro t ht pr hpr
  unfold MPoly.rawCoeff at ht
  rw [List.mem_filterMap] at ht
  obtain ⟨t0, ht0, heq⟩ := ht
  split_ifs at heq
  simp only [Option.some.injEq] at heq
  subst heq
  simp only [Mono.without, List.mem_filter] at hpr
  exact hz t0 ht0 pr hpr.1

theorem rawCoeff_free_self (y k : ℕ) (p : MPoly) : ∀ t ∈ MPoly.rawCoeff y k p, ∀ pr ∈ t.1, pr.1 ≠ y := by
  intro t ht pr hpr
  unfold MPoly.rawCoeff at ht
  rw [List.mem_filterMap] at ht
  obtain ⟨t0, _, heq⟩ := ht
  split_ifs at heq
  simp only [Option.some.injEq] at heq
  subst heq
  simp only [Mono.without, List.mem_filter, decide_eq_true_eq] at hpr
  exact hpr.2

/-- the value of a coefficient (in y) does not depend on a variable z that is y or does not occur in p -/
theorem coeff_update (p : MPoly) (y k z : ℕ) (ν : ℕ → ℝ) (v : ℝ) (hz : z = y ∨ ∀ t ∈ p, ∀ pr ∈ t.1, pr.1 ≠ z) :
    evalRealM (MPoly.coeffIn none y k p) (Function.update ν z v) = evalRealM (MPoly.coeffIn none y k p) ν := by
  rw [evalRealM_eq_evalAt, evalRealM_eq_evalAt, MPoly.evalAt_coeffIn, MPoly.evalAt_coeffIn,
    ← evalRealM_eq_evalAt, ← evalRealM_eq_evalAt]
  apply MPoly.evalRealM_update
  rcases hz with rfl | hz
  · exact rawCoeff_free_self z k p
  · exact rawCoeff_free y k z p hz

/-- **identically zero**: if the model finds every coefficient in y exactly zero at the assignment, the specialised
    polynomial vanishes at every real -/
theorem identicallyZero_sound (p : MPoly) (y : ℕ) (a : Asg) (ν : ℕ → ℝ)
    (hden : AsgDen a ν) (hroots : ∀ xz ∈ a, evalR (ZAlg.toQ xz.2.f) (ν xz.1) = 0)
    (hzp : ∀ t ∈ p, ∀ pr ∈ t.1, pr.1 ≠ zVar) (hza : ∀ xz ∈ a, xz.1 ≠ zVar)
    (h : identicallyZero p y a = some true) (ρ : ℝ) : specR p ν y ρ = 0 := by
  unfold identicallyZero at h
  cases hm : (coeffsIn y p).mapM (fun c => exactSign c a) with
  | none => rw [hm] at h; simp at h
  | some l =>
    rw [hm] at h
    simp only [Option.map_some, Option.some.injEq] at h
    have hF := mapM_forall₂ _ _ _ hm
    unfold specR
    rw [evalRealM_eq_evalAt, MPoly.evalAt_decompose _ y p (MPoly.degreeIn y p) (by
      unfold MPoly.degreeIn; exact (mono_degree_le y p 0).2)]
    apply Finset.sum_eq_zero
    intro k hk
    rw [Finset.mem_range] at hk
    have hck : (coeffsIn y p)[k]? = some (MPoly.coeffIn none y k p) := by
      unfold coeffsIn
      rw [List.getElem?_map, List.getElem?_range hk]; rfl
    obtain ⟨s, hs1, hs2⟩ := forall₂_index hF k _ hck
    have hs0 : s = 0 := by
      rw [List.all_eq_true] at h
      have := h s (List.mem_of_getElem? hs1)
      simpa using this
    have hsig := C10_sign_exact_sem (MPoly.coeffIn none y k p) a ν s hden hroots
      (fun v => coeff_update p y k zVar ν v (Or.inr hzp)) hza hs2
    have hzero : evalRealM (MPoly.coeffIn none y k p) ν = 0 := by
      subst hs0
      rcases hsig with ⟨h1, _⟩ | ⟨h1, _⟩ | ⟨_, h2⟩
      · omega
      · omega
      · exact h2
    have := coeff_update p y k y ν ρ (Or.inl rfl)
    rw [← evalRealM_eq_evalAt, this, hzero, zero_mul]

/-- **C12, identically vanishing specialisation**: the sign is 0 everywhere and the reference set is the whole line
    or empty accordingly -/
theorem C12_feasible_exact_zero (p : MPoly) (y : ℕ) (a : Asg) (ν : ℕ → ℝ) (cond : ℕ) (neg : Bool) (cap : ℕ)
    (rs : List Alg) (S : List SInt) (r : ℕ → ℝ)
    (hden : AsgDen a ν) (hroots : ∀ xz ∈ a, evalR (ZAlg.toQ xz.2.f) (ν xz.1) = 0) (hya : ∀ xz ∈ a, xz.1 ≠ y)
    (hzp : ∀ t ∈ p, ∀ pr ∈ t.1, pr.1 ≠ zVar) (hza : ∀ xz ∈ a, xz.1 ≠ zVar) (hyz : y ≠ zVar)
    (hnz : identicallyZero p y a = some true)
    (h : feasible p y a cond neg cap = some (rs, S)) :
    rs = [] ∧ (∀ v, specR p ν y v = 0) ∧
      ∀ v : ℝ, (∃ I ∈ S, SInt.mem r I v) ↔
        (if neg then ¬ CondHolds cond (specR p ν y v) else CondHolds cond (specR p ν y v)) := by
  have hzero := identicallyZero_sound p y a ν hden hroots hzp hza hnz
  unfold feasible at h
  rw [C11_identically_zero p y a cap hnz] at h
  simp only at h
  have hsep : separate 100 [] = some [] := by simp [separate]
  rw [hsep] at h
  simp only at h
  cases hcs : cellSigns p y a [] with
  | none => rw [hcs] at h; simp at h
  | some signs =>
    rw [hcs] at h
    simp only [Option.some.injEq, Prod.mk.injEq] at h
    obtain ⟨h1, h2⟩ := h
    refine ⟨h1.symm, hzero, fun v => ?_⟩
    unfold cellSigns at hcs
    simp only [samples, List.mapM_cons, List.mapM_nil] at hcs
    cases hs : exactSign p ((y, ZAlg.ofRat 0) :: a) with
    | none => rw [hs] at hcs; simp at hcs
    | some s =>
      rw [hs] at hcs
      simp only [Option.pure_def, Option.bind_eq_bind, Option.bind_some, Option.map_some, Option.some.injEq] at hcs
      have hsig := sign_at_rat p a ν y 0 s hden hroots hya hzp hza hyz hs
      set c := (if neg then negateCond cond else cond) with hc
      have hsweep := C12_sweep r 0 (by intro i j _ hj; omega) (signs.map (consistent c)) (by rw [← hcs]; rfl) v
      rw [← h2]
      simp only [List.length_nil]
      rw [hsweep]
      have hsv : SignIs s (specR p ν y v) := by
        have h0 := hzero ((0 : ℚ) : ℝ)
        rw [h0] at hsig
        rw [hzero v]; exact hsig
      have hfinal : (∃ i, (signs.map (consistent c))[i]? = some true ∧ cellMem r 0 i v) ↔ CondHolds c (specR p ν y v) := by
        rw [← hcs]
        constructor
        · rintro ⟨i, hi1, _⟩
          have hi0 : i = 0 := by
            by_contra hne
            have : ([s].map (consistent c))[i]? = none := by
              rw [List.getElem?_eq_none]; simp [interleave]; omega
            simp only [interleave, List.flatMap_nil] at hi1 this
            rw [this] at hi1; cases hi1
          subst hi0
          simp only [interleave, List.flatMap_nil, List.map_cons, List.map_nil, List.getElem?_cons_zero, Option.some.injEq] at hi1
          exact (C10_consistent c s _ hsv).1 hi1
        · intro hcv
          obtain ⟨i, hile, hi2⟩ := cell_exists r 0 (by intro i j _ hj; omega) v
          have hi0 : i = 0 := by omega
          subst hi0
          refine ⟨0, ?_, hi2⟩
          simp only [interleave, List.flatMap_nil, List.map_cons, List.map_nil, List.getElem?_cons_zero, Option.some.injEq]
          exact (C10_consistent c s _ hsv).2 hcv
      rw [hfinal, hc]
      cases neg with
      | false => simp
      | true => simp only [if_true]; exact condHolds_negate cond _

end Eval
end LP
