/- Failing-input search for the translator tie: enumerate the whole finite domain of the sign-condition tables and print
   every entry on which the definition generated from the C source differs from the hand-written model.
   Run: lake env lean --run Gen/TableDiff.lean -/
import LP.Gen.SignCondition
import LP.Gen.IntervalCmp
import LP.Gen.IcmpModel
import LP.Model.Feasible
import LP.Model.IntervalPoly
open LP

def condName (c : Nat) : String := match c with | 0 => "<0" | 1 => "<=0" | 2 => "==0" | 3 => "!=0" | 4 => ">0" | _ => ">=0"
def epOf (s : Int) : EP := if s < 0 then .fin (-1) else if s = 0 then .fin 0 else .fin 1

def main : IO Unit := do
  let mut n := 0
  if Gen.enumValues ≠ [0, 1, 2, 3, 4, 5] then
    IO.println s!"MISMATCH enum values {Gen.enumValues} (model assumes 0..5)"; n := n + 1
  for c in [0:6] do
    if Gen.negate c ≠ (Eval.negateCond c : Int) then
      IO.println s!"MISMATCH lp_sign_condition_negate({condName c}) = {Gen.negate c} in the C source, model {Eval.negateCond c}"; n := n + 1
    if (Gen.zpValid c != 0) != (c == 2 || c == 3) then
      IO.println s!"MISMATCH lp_sign_condition_Zp_valid({condName c}) = {Gen.zpValid c} in the C source"; n := n + 1
    for s in [(-1 : Int), 0, 1] do
      if (Gen.consistent c s != 0) != Eval.consistent c s then
        IO.println s!"MISMATCH lp_sign_condition_consistent({condName c}, sign {s}) = {Gen.consistent c s} in the C source, model {Eval.consistent c s}"; n := n + 1
    for pt in [false, true] do
      for sa in [(-1 : Int), 0, 1] do
        for sb in [(-1 : Int), 0, 1] do
          for ao in [false, true] do
            for bo in [false, true] do
              let I : VI := ⟨epOf sa, epOf sb, ao, bo, pt⟩
              let g := Gen.consistentInterval c ((if pt then 1 else 0)) sa sb ((if ao then 1 else 0)) ((if bo then 1 else 0))
              if (g != 0) != VI.consistentInterval c I then
                IO.println s!"MISMATCH lp_sign_condition_consistent_interval({condName c}, is_point={pt}, sgn(a)={sa}, sgn(b)={sb}, a_open={ao}, b_open={bo}) = {g} in the C source, model {VI.consistentInterval c I}"; n := n + 1
  if Gen.icmpEnumValues ≠ [0, 1, 2, 3, 4, 5, 6, 7, 8] then
    IO.println s!"MISMATCH lp_interval_cmp_t values {Gen.icmpEnumValues} (model assumes 0..8)"; n := n + 1
  for cu in [(-1 : Int), 0, 1] do
    for cl in [(-1 : Int), 0, 1] do
      for x in [(-1 : Int), 0, 1] do
        for z in [(-1 : Int), 0, 1] do
          for a1 in [false, true] do
            for b1 in [false, true] do
              for a2 in [false, true] do
                for b2 in [false, true] do
                  let g := Gen.intervalCmp cu cl x z (if a1 then 1 else 0) (if b1 then 1 else 0) (if a2 then 1 else 0) (if b2 then 1 else 0)
                  let w := Gen.icmpCode (Gen.cwiClass cu cl x z a1 b1 a2 b2)
                  if g ≠ w then
                    IO.println s!"MISMATCH lp_interval_cmp_with_intersect: cmp_ub={cu} cmp_lb={cl} cmp(I1.ub,I2.lb)={x} cmp(I1.lb,I2.ub)={z} I1=({a1},{b1}) I2=({a2},{b2}) gives {g} in the C source, model {w}"; n := n + 1
  for c in [(-1 : Int), 0, 1] do
    for o1 in [false, true] do
      for o2 in [false, true] do
        let wl : Int := if c ≠ 0 then c else if o1 = o2 then 0 else if o1 then 1 else -1
        let wu : Int := if c ≠ 0 then c else if o1 = o2 then 0 else if o1 then -1 else 1
        let gl := Gen.cmpLowerBounds c (if o1 then 1 else 0) (if o2 then 1 else 0)
        let gu := Gen.cmpUpperBounds c (if o1 then 1 else 0) (if o2 then 1 else 0)
        if gl ≠ wl then
          IO.println s!"MISMATCH lp_interval_cmp_lower_bounds: cmp={c} a_open=({o1},{o2}) gives {gl} in the C source, model {wl}"; n := n + 1
        if gu ≠ wu then
          IO.println s!"MISMATCH lp_interval_cmp_upper_bounds: cmp={c} b_open=({o1},{o2}) gives {gu} in the C source, model {wu}"; n := n + 1
  IO.println s!"#mismatches {n}"
