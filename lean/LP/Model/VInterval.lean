/-
  C15 (general value intervals) — mirror of lp_interval_add / lp_interval_mul / lp_interval_pow /
  lp_interval_sgn for end points that are integers, dyadics, rationals or ±infinity
  (the `*_approx` helpers are exact on these kinds).  Core Lean only.
-/
import LP.Model.FSet
import LP.Model.Interval
namespace LP
namespace EP

def sgn : EP → Int
  | .ninf => -1 | .pinf => 1 | .fin q => sgnQ q

/-- `lp_value_add_approx` on exact kinds; `none` = undefined (-inf + +inf) -/
def add : EP → EP → Option EP
  | .fin a, .fin b => some (.fin (a + b))
  | .ninf, .pinf => none
  | .pinf, .ninf => none
  | .ninf, _ => some .ninf
  | _, .ninf => some .ninf
  | .pinf, _ => some .pinf
  | _, .pinf => some .pinf

/-- `lp_value_mul_approx` on exact kinds (0 * inf = 0) -/
def mul : EP → EP → EP
  | .fin a, .fin b => .fin (a * b)
  | x, y =>
    let s := sgn x * sgn y
    if s = 0 then .fin 0 else if s > 0 then .pinf else .ninf

def pow : EP → Nat → EP
  | .fin a, n => .fin (a ^ n)
  | .ninf, n => if n % 2 = 1 then .ninf else .pinf
  | .pinf, _ => .pinf

end EP

namespace VI

def endpointLt (a : EP) (aOpen : Bool) (b : EP) (bOpen : Bool) : Bool :=
  if EP.cmp a b = 0 then (!aOpen && bOpen) else decide (EP.cmp a b < 0)

/-- `lp_interval_sgn` -/
def sgn (I : VI) : Int :=
  let sa := EP.sgn I.a
  if I.isPoint then sa else
  let sb := EP.sgn I.b
  if sa < 0 ∧ sb > 0 then 0
  else if sa = 0 then (if !I.aOpen then 0 else 1)
  else if sb = 0 then (if !I.bOpen then 0 else -1)
  else if sa < 0 then -1 else 1

/-- `lp_interval_add` -/
def add (I1 I2 : VI) : Option VI :=
  if I1.isPoint ∧ I2.isPoint then (EP.add I1.a I2.a).map point
  else
    match EP.add I1.lower I2.lower, EP.add I1.upper I2.upper with
    | some lo, some hi => some (mk' lo (I1.aOpen || I2.aOpen) hi (I1.bOpen || I2.bOpen))
    | _, _ => none

abbrev EPt := EP × Bool
def betterLo (cur cand : EPt) : EPt := if endpointLt cand.1 cand.2 cur.1 cur.2 then cand else cur
def betterHi (cur cand : EPt) : EPt := if endpointLt cur.1 (!cur.2) cand.1 (!cand.2) then cand else cur
def closedZeroEnd (I : VI) : Bool := (EP.sgn I.a = 0 && !I.aOpen) || (EP.sgn I.b = 0 && !I.bOpen)

/-- `lp_interval_mul` -/
def mul (I1 I2 : VI) : VI :=
  let mulPoint (p : EP) (I : VI) : VI :=
    let s := EP.sgn p
    if s = 0 then point (.fin 0)
    else if s > 0 then mk' (EP.mul p I.a) I.aOpen (EP.mul p I.b) I.bOpen
    else mk' (EP.mul p I.b) I.bOpen (EP.mul p I.a) I.aOpen
  if I1.isPoint then
    if I2.isPoint then point (EP.mul I1.a I2.a) else mulPoint I1.a I2
  else if I2.isPoint then mulPoint I2.a I1
  else
    let c0 : EPt := (EP.mul I1.a I2.a, I1.aOpen || I2.aOpen)
    let c1 : EPt := (EP.mul I1.a I2.b, I1.aOpen || I2.bOpen)
    let c2 : EPt := (EP.mul I1.b I2.a, I1.bOpen || I2.aOpen)
    let c3 : EPt := (EP.mul I1.b I2.b, I1.bOpen || I2.bOpen)
    let lo := [c1, c2, c3].foldl betterLo c0
    let hi := [c1, c2, c3].foldl betterHi c0
    let cz := closedZeroEnd I1 || closedZeroEnd I2
    mk' lo.1 (if EP.sgn lo.1 = 0 ∧ cz then false else lo.2) hi.1 (if EP.sgn hi.1 = 0 ∧ cz then false else hi.2)

/-- `lp_interval_pow` -/
def pow (I : VI) (n : Nat) : VI :=
  if n = 0 then point (.fin 1)
  else if I.isPoint then point (EP.pow I.a n)
  else if n % 2 = 1 then mk' (EP.pow I.a n) I.aOpen (EP.pow I.b n) I.bOpen
  else
    let s := sgn I
    if s = 0 then
      if endpointLt (EP.pow I.b n) (!I.bOpen) (EP.pow I.a n) (!I.aOpen) then mk' (.fin 0) false (EP.pow I.a n) I.aOpen
      else mk' (.fin 0) false (EP.pow I.b n) I.bOpen
    else if s > 0 then mk' (EP.pow I.a n) I.aOpen (EP.pow I.b n) I.bOpen
    else mk' (EP.pow I.b n) I.bOpen (EP.pow I.a n) I.aOpen

/-- embedding of a rational interval -/
def ofQI (I : QI) : VI := ⟨.fin I.a, .fin I.b, I.aOpen, I.bOpen, I.isPoint⟩

end VI
end LP
