/-
  Arithmetic on real algebraic numbers by elimination: the eliminant of `x ⊕ y` (⊕ ∈ +, ·, ^n) is the
  Sylvester determinant of the model (C04), the right root is selected by closed interval arithmetic on the
  isolating intervals, refined until exactly one root of the eliminant is enclosed.  Every other operation is
  validated through these three (r = a − b ⇔ r + b = a, r = 1/a ⇔ r·a = 1, r = ⁿ√a ⇔ r ≥ 0 ∧ rⁿ = a, …).
  Core Lean only.
-/
import LP.Model.Alg
import LP.Model.Resultant
namespace LP
open QPoly MPoly

/-- algebraic number together with an integer polynomial vanishing at it (low degree first) -/
structure ZAlg where
  f : List Int
  a : Alg

namespace ZAlg

/-- the point p/q as a root of q·x − p -/
def ofRat (q : Rat) : ZAlg := ⟨[-q.num, (q.den : Int)], .rat q⟩

def toQ (cs : List Int) : QPoly := cs.map (fun (c : Int) => (c : Rat))

def varP (x : Nat) : MPoly := [([(x, 1)], 1)]

/-- Horner evaluation of an integer polynomial at a multivariate polynomial -/
def hornerAt (cs : List Int) (t : MPoly) : MPoly :=
  cs.foldr (fun c acc => MPoly.add none (MPoly.const none c) (MPoly.mul none t acc)) []

/-- y^m · f(z/y) -/
def homog (cs : List Int) (z y : Nat) : MPoly :=
  let m := cs.length - 1
  MPoly.normalize none (cs.zipIdx.map (fun (c : Int × Nat) =>
    ((if c.2 = 0 then [] else [(z, c.2)]) ++ (if m - c.2 = 0 then [] else [(y, m - c.2)]), c.1)))

def uni (x : Nat) (cs : List Int) : MPoly :=
  MPoly.normalize none (cs.zipIdx.map (fun (c : Int × Nat) => ((if c.2 = 0 then [] else [(x, c.2)]), c.1)))

/-- value of a constant polynomial (0 for anything else; `isConstPoly` is checked by the callers) -/
def constOf (q : MPoly) : Int :=
  match q with
  | [([], c)] => c
  | _ => 0

def isConstPoly (q : MPoly) : Bool :=
  match q with
  | [] => true
  | [([], _)] => true
  | _ => false

/-- is `p` a polynomial in the variable `x` alone? (every coefficient in x is a constant) -/
def univariateIn (x : Nat) (p : MPoly) : Bool :=
  (List.range (MPoly.degreeIn x p + 1)).all (fun i => isConstPoly (MPoly.coeffIn none x i p))

/-- dense coefficient list in the variable `x` of a polynomial in `x` alone; `[]` (treated as "no eliminant" by the
    callers) if other variables remain -/
def dense (x : Nat) (p : MPoly) : List Int :=
  if univariateIn x p then (List.range (MPoly.degreeIn x p + 1)).map (fun i => constOf (MPoly.coeffIn none x i p))
  else []

inductive Op | add | mul | pow (n : Nat)
deriving Repr, DecidableEq

/-- the pair (P(z, y), Q(y)) whose common zeros project onto x ⊕ y: z = 0, y = 1 -/
def elimPair (op : Op) (f g : List Int) : MPoly × MPoly :=
  match op with
  | .add => (hornerAt f (MPoly.sub none (varP 0) (varP 1)), uni 1 g)
  | .mul => (homog f 0 1, uni 1 g)
  | .pow n => (MPoly.sub none (varP 0) (MPoly.pow none (varP 1) n), uni 1 f)

/-- eliminate y = 1 from the pair, giving a polynomial in z = 0; `[]` if y does not occur (no elimination possible) -/
def elimOf (P Q : MPoly) : List Int :=
  if MPoly.degreeIn 1 P + MPoly.degreeIn 1 Q = 0 then []
  else dense 0 (resultantSpec none 1 P Q)

/-- eliminant of `x ⊕ y` in the variable z = 0 -/
def eliminant (op : Op) (f g : List Int) : List Int :=
  elimOf (elimPair op f g).1 (elimPair op f g).2

def ciOf (a : Alg) : CI := ⟨a.lo, a.hi⟩
def ciPow (X : CI) : Nat → CI
  | 0 => CI.pt 1
  | n+1 => CI.mul X (ciPow X n)

def image (op : Op) (a b : Alg) : CI :=
  match op with
  | .add => CI.add (ciOf a) (ciOf b)
  | .mul => CI.mul (ciOf a) (ciOf b)
  | .pow n => ciPow (ciOf a) n

/-- refine the operands until the closed image encloses exactly one root of the (square-free) eliminant -/
def selectLoop (op : Op) (R : QPoly) : Nat → Alg → Alg → Option CI
  | 0, _, _ => none
  | fuel+1, a, b =>
    let J := image op a b
    match countIn R J.lo false J.hi false with
    | none => none
    | some n =>
      if n = 1 then some J
      else if n = 0 then none      -- impossible for a correct eliminant: report as inconclusive
      else
        match Alg.refine a, Alg.refine b with
        | some a', some b' => selectLoop op R fuel a' b'
        | _, _ => none

/-- the result of `x ⊕ y` as (square-free eliminant, closed interval holding exactly one of its roots) -/
def result (op : Op) (x y : ZAlg) : Option (QPoly × CI) :=
  let E := eliminant op x.f y.f
  if E.all (· = 0) then none else
  match sqfreePart (toQ E) with
  | none => none
  | some R => (selectLoop op R 200 x.a y.a).map (fun J => (R, J))

/-- does the (valid) number `t` equal the unique root of `R` in the closed interval `J`? -/
def isThe (R : QPoly) (J : CI) (t : Alg) : Option Bool :=
  match Alg.cmpRat t J.lo, Alg.cmpRat t J.hi with
  | some c1, some c2 =>
    if c1 < 0 ∨ c2 > 0 then some false
    else Alg.isRootOf R t
  | _, _ => none

/-- −x : root of f(−z) in the mirrored interval -/
def neg (x : ZAlg) : ZAlg :=
  let g := x.f.zipIdx.map (fun (c : Int × Nat) => if c.2 % 2 = 0 then c.1 else -c.1)
  match x.a with
  | .rat q => ⟨g, .rat (-q)⟩
  | .root _ l u => ⟨g, .root (toQ g) (-u) (-l)⟩

/-- refine until the isolating interval does not contain 0 (x ≠ 0) -/
def awayFromZero : Nat → Alg → Option Alg
  | 0, _ => none
  | fuel+1, a =>
    match a with
    | .rat q => some (.rat q)
    | .root f l u => if 0 < l ∨ u < 0 then some (.root f l u) else (Alg.refine (.root f l u)).bind (awayFromZero fuel)

/-- 1/x for x ≠ 0 : root of the reversed polynomial in the inverted interval -/
def inv (x : ZAlg) : Option ZAlg :=
  let g := x.f.reverse
  match awayFromZero 200 x.a with
  | some (.rat q) => if q = 0 then none else some ⟨g, .rat (1 / q)⟩
  | some (.root _ l u) => some ⟨g, .root (toQ g) (1 / u) (1 / l)⟩
  | none => none

/-- f(zⁿ) -/
def substPow (cs : List Int) (n : Nat) : List Int :=
  cs.zipIdx.flatMap (fun (c : Int × Nat) => if c.2 = 0 then [c.1] else List.replicate (n - 1) 0 ++ [c.1])

/-- is `r` the non-negative n-th root of `x` (n ≥ 1)?  r ≥ 0, f(rⁿ) = 0 and rⁿ inside the isolating interval of x -/
def isRootN (x r : ZAlg) (n : Nat) : Nat → Option Bool
  | 0 => none
  | fuel+1 =>
    match Alg.sgn r.a with
    | none => none
    | some s =>
      if s < 0 then some false else
      match x.a with
      | .rat q =>
        -- rⁿ = q  ⇔  r is a root of zⁿ − q, r ≥ 0
        Alg.isRootOf (toQ (substPow x.f n)) r.a
      | .root _ l u =>
        match Alg.isRootOf (toQ (substPow x.f n)) r.a with
        | none => none
        | some false => some false
        | some true =>
          -- locate rⁿ relative to (l, u) with the current enclosure of r
          let lo := r.a.lo
          let hi := r.a.hi
          if l < lo ^ n ∧ hi ^ n < u ∧ 0 ≤ lo then some true
          else if (0 ≤ lo ∧ u ≤ lo ^ n) ∨ (0 ≤ lo ∧ hi ^ n ≤ l) then some false
          else (Alg.refine r.a).bind (fun a' => isRootN x ⟨r.f, a'⟩ n fuel)

/-- `x ⊕ y = t` ? -/
def opEq (op : Op) (x y t : ZAlg) : Option Bool :=
  match op with
  | .mul =>
    -- a zero operand makes the homogenised eliminant degenerate: decide directly
    match Alg.sgn x.a, Alg.sgn y.a with
    | some sx, some sy =>
      if sx = 0 ∨ sy = 0 then (Alg.sgn t.a).map (· == 0)
      else (result op x y).bind (fun r => isThe r.1 r.2 t.a)
    | _, _ => none
  | _ => (result op x y).bind (fun r => isThe r.1 r.2 t.a)

end ZAlg
end LP
