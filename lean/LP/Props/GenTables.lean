/-
  Second tie between model and source: the definitions in `LP.Gen.SignCondition` are generated on every run from
  src/utils/sign_condition.c by tools/translate_tables.py.  The theorems below identify them with the hand-written model on
  the whole domain, so the model's tables ARE the C tables (and `C12_negate`, `C10_consistent`, `consistentInterval_sound`
  speak about the code as written).  A changed table entry in the C source makes one of these proofs fail on the next run.
-/
import LP.Gen.SignCondition
import LP.Gen.IntervalCmp
import LP.Gen.IcmpModel
import LP.Model.FSet
import LP.Model.Feasible
import LP.Model.IntervalPoly
import Mathlib.Tactic.IntervalCases
import Mathlib.Tactic.SplitIfs

namespace LP
namespace Gen

/-- the enum still numbers the six conditions 0..5 in the order `<, <=, ==, !=, >, >=` -/
theorem enum_order : enumValues = [0, 1, 2, 3, 4, 5] := by decide

/-- `lp_sign_condition_negate` is the model's negation table -/
theorem negate_eq (c : ℕ) (hc : c < 6) : negate (c : Int) = (Eval.negateCond c : Int) := by
  interval_cases c <;> rfl

/-- `lp_sign_condition_consistent` is the model's consistency test -/
theorem consistent_eq (c : ℕ) (hc : c < 6) (s : Int) : (consistent (c : Int) s ≠ 0) ↔ Eval.consistent c s = true := by
  interval_cases c <;> simp only [consistent, Eval.consistent] <;> norm_num <;> split_ifs <;> simp_all <;> omega

/-- `lp_sign_condition_Zp_valid`: exactly `==` and `!=` -/
theorem zpValid_eq (c : ℕ) (hc : c < 6) : (zpValid (c : Int) ≠ 0) ↔ (c = 2 ∨ c = 3) := by
  interval_cases c <;> simp [zpValid]

def b2i (b : Bool) : Int := if b then 1 else 0

/-- `lp_sign_condition_consistent_interval` is the model's interval test, for every condition, every strictness pattern and
    every pair of end-point signs -/
theorem consistentInterval_eq (c : ℕ) (hc : c < 6) (I : VI) :
    (consistentInterval (c : Int) (b2i I.isPoint) (EP.sgn I.a) (EP.sgn I.b) (b2i I.aOpen) (b2i I.bOpen) ≠ 0) ↔
      VI.consistentInterval c I = true := by
  obtain ⟨a, b, ao, bo, pt⟩ := I
  interval_cases c <;> cases pt <;> cases ao <;> cases bo <;>
    simp only [consistentInterval, consistent, VI.consistentInterval, b2i] <;> norm_num <;>
    (try split_ifs) <;> (try simp_all) <;> (try omega)


/-! ### `lp_interval_cmp_with_intersect` (classification part) -/

theorem cwi_class (I1 I2 : VI) : (VI.cmpWithIntersect I1 I2).1 =
    cwiClass (VI.cmpUpper I1 I2) (VI.cmpLower I1 I2) (EP.cmp I1.upper I2.lower) (EP.cmp I1.lower I2.upper)
      I1.aOpen I1.bOpen I2.aOpen I2.bOpen := by
  unfold VI.cmpWithIntersect VI.cwiCore VI.cwiLt VI.cwiGt cwiClass
  simp only [apply_ite Prod.fst]

def sgns : List Int := [-1, 0, 1]
def bools : List Bool := [false, true]

theorem table_eq : sgns.all (fun cu => sgns.all (fun cl => sgns.all (fun x => sgns.all (fun z =>
    bools.all (fun a1 => bools.all (fun b1 => bools.all (fun a2 => bools.all (fun b2 =>
      intervalCmp cu cl x z (b2i a1) (b2i b1) (b2i a2) (b2i b2) == icmpCode (cwiClass cu cl x z a1 b1 a2 b2))))))))) = true := by
  decide +kernel

theorem cmpQ_range (a b : Rat) : cmpQ a b ∈ sgns := by
  unfold cmpQ sgns; split_ifs <;> simp

theorem ep_cmp_range (a b : EP) : EP.cmp a b ∈ sgns := by
  cases a with
  | ninf => cases b <;> simp [EP.cmp, sgns]
  | pinf => cases b <;> simp [EP.cmp, sgns]
  | fin p =>
    cases b with
    | ninf => simp [EP.cmp, sgns]
    | pinf => simp [EP.cmp, sgns]
    | fin q => exact cmpQ_range p q

theorem cmpUpper_range (I1 I2 : VI) : VI.cmpUpper I1 I2 ∈ sgns := by
  unfold VI.cmpUpper
  simp only
  have := ep_cmp_range I1.upper I2.upper
  split_ifs <;> simp_all [sgns]

theorem cmpLower_range (I1 I2 : VI) : VI.cmpLower I1 I2 ∈ sgns := by
  unfold VI.cmpLower
  simp only
  have := ep_cmp_range I1.lower I2.lower
  split_ifs <;> simp_all [sgns]

/-- **`lp_interval_cmp_with_intersect` classifies exactly as the model does**: the definition generated from
    src/interval/interval.c, fed with the model's bound comparisons, returns the code of the model's classification -/
theorem intervalCmp_eq (I1 I2 : VI) :
    intervalCmp (VI.cmpUpper I1 I2) (VI.cmpLower I1 I2) (EP.cmp I1.upper I2.lower) (EP.cmp I1.lower I2.upper)
      (b2i I1.aOpen) (b2i I1.bOpen) (b2i I2.aOpen) (b2i I2.bOpen) = icmpCode (VI.cmpWithIntersect I1 I2).1 := by
  rw [cwi_class]
  have h := table_eq
  simp only [List.all_eq_true] at h
  have hb : ∀ b : Bool, b ∈ bools := by intro b; cases b <;> simp [bools]
  have := h _ (cmpUpper_range I1 I2) _ (cmpLower_range I1 I2) _ (ep_cmp_range I1.upper I2.lower) _ (ep_cmp_range I1.lower I2.upper)
    _ (hb I1.aOpen) _ (hb I1.bOpen) _ (hb I2.aOpen) _ (hb I2.bOpen)
  simpa using this

/-- `lp_interval_cmp_lower_bounds` / `_upper_bounds` are the model's bound comparisons -/
theorem cmpLowerBounds_eq (I1 I2 : VI) :
    cmpLowerBounds (EP.cmp I1.lower I2.lower) (b2i I1.aOpen) (b2i I2.aOpen) = VI.cmpLower I1 I2 := by
  unfold cmpLowerBounds VI.cmpLower b2i
  cases I1.aOpen <;> cases I2.aOpen <;> simp <;> split_ifs <;> simp_all

theorem cmpUpperBounds_eq (I1 I2 : VI) :
    cmpUpperBounds (EP.cmp I1.upper I2.upper) (b2i I1.bOpen) (b2i I2.bOpen) = VI.cmpUpper I1 I2 := by
  unfold cmpUpperBounds VI.cmpUpper b2i
  cases I1.bOpen <;> cases I2.bOpen <;> simp <;> split_ifs <;> simp_all

theorem icmp_enum_order : icmpEnumValues = [0, 1, 2, 3, 4, 5, 6, 7, 8] := by decide

end Gen
end LP
