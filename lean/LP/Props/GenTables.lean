/-
  Second tie between model and source: the definitions in `LP.Gen.SignCondition` are generated on every run from
  src/utils/sign_condition.c by tools/translate_tables.py.  The theorems below identify them with the hand-written model on
  the whole domain, so the model's tables ARE the C tables (and `C12_negate`, `C10_consistent`, `consistentInterval_sound`
  speak about the code as written).  A changed table entry in the C source makes one of these proofs fail on the next run.
-/
import LP.Gen.SignCondition
import LP.Model.Feasible
import LP.Model.IntervalPoly
import Mathlib.Tactic.IntervalCases
import Mathlib.Tactic.SplitIfs

namespace LP
namespace Gen

/-- the enum still numbers the six conditions 0..5 in the order `<, <=, ==, !=, >, >=` -/
theorem enum_order : enumValues = [0, 1, 2, 3, 4, 5] := by decide

/-- `lp_sign_condition_negate` is the model's negation table -/
theorem negate_eq (c : ℕ) (hc : c < 6) : negate (c : Int) = (Eval.negateCond c : Int) := by
  interval_cases c <;> rfl

/-- `lp_sign_condition_consistent` is the model's consistency test -/
theorem consistent_eq (c : ℕ) (hc : c < 6) (s : Int) : (consistent (c : Int) s ≠ 0) ↔ Eval.consistent c s = true := by
  interval_cases c <;> simp only [consistent, Eval.consistent] <;> norm_num <;> split_ifs <;> simp_all <;> omega

/-- `lp_sign_condition_Zp_valid`: exactly `==` and `!=` -/
theorem zpValid_eq (c : ℕ) (hc : c < 6) : (zpValid (c : Int) ≠ 0) ↔ (c = 2 ∨ c = 3) := by
  interval_cases c <;> simp [zpValid]

def b2i (b : Bool) : Int := if b then 1 else 0

/-- `lp_sign_condition_consistent_interval` is the model's interval test, for every condition, every strictness pattern and
    every pair of end-point signs -/
theorem consistentInterval_eq (c : ℕ) (hc : c < 6) (I : VI) :
    (consistentInterval (c : Int) (b2i I.isPoint) (EP.sgn I.a) (EP.sgn I.b) (b2i I.aOpen) (b2i I.bOpen) ≠ 0) ↔
      VI.consistentInterval c I = true := by
  obtain ⟨a, b, ao, bo, pt⟩ := I
  interval_cases c <;> cases pt <;> cases ao <;> cases bo <;>
    simp only [consistentInterval, consistent, VI.consistentInterval, b2i] <;> norm_num <;>
    (try split_ifs) <;> (try simp_all) <;> (try omega)

end Gen
end LP
