import LP.Model.Eval
import LP.Driver.Value
namespace LP.Driver
open LP LP.QPoly

/-- `i=V;j=V` -/
def pAsg? (s : String) : Option (List (Nat × Val)) :=
  if s = "-" then some [] else
  (s.splitOn ";").mapM (fun e =>
    match e.splitOn "=" with
    | [i, v] => do
        let i ← pNat? i
        let v ← pVal? v
        some (i, v)
    | _ => none)

def asgToZ (a : List (Nat × Val)) : Option Asg := a.mapM (fun p => p.2.toZ?.map (fun z => (p.1, z)))

def asgKinds (a : List (Nat × Val)) : String :=
  let nAlg := (a.filter (fun p => match p.2 with | .alg r => r.f.isSome | _ => false)).length
  s!"alg{nAlg}"

def asgOperandsOk (a : List (Nat × Val)) : Option String :=
  a.findSome? (fun p => match p.2 with | .alg r => r.reprOk | _ => none)

def evalCap : Nat := 8

def checkEval (op : String) (args res : List String) : Verdict :=
  match op, args, res with
  | "sgn", [ps, as], [s] =>
    match pPolyRaw? ps, pAsg? as, pInt? s with
    | some raw, some av, some s =>
      match asgOperandsOk av, asgToZ av with
      | some m, _ => .viol "state/operand-repr" m
      | none, none => .skip "infinite value in assignment"
      | none, some a =>
        let p := MPoly.normalize none raw
        if Eval.elimSize p a > evalCap then
          -- no algebraic zero test available: only a certified non-zero sign can be judged
          match Eval.signLoop p 40 a (some [1]) with
          | some w => if w ≠ 0 then (if sgnI s = w then .ok s!"ev/sgn/{asgKinds av}/nonzero-big" else .viol "ev/sgn" s!"got {s}, exact {w}") else .skip "size cap"
          | none => .skip "size cap"
        else
        match Eval.exactSign p a with
        | none => .skip "sign out of fuel"
        | some w =>
          let tag := s!"ev/sgn/{asgKinds av}/{if w = 0 then "zero" else "nonzero"}"
          if sgnI s = w then .ok tag else .viol tag s!"got {s}, exact {w}"
    | _, _, _ => .skip "parse"
  | "cons", [ps, cs, as], [b] =>
    match pPolyRaw? ps, pNat? cs, pAsg? as, pInt? b with
    | some raw, some c, some av, some b =>
      match asgToZ av with
      | none => .skip "infinite value in assignment"
      | some a =>
        let p := MPoly.normalize none raw
        if Eval.elimSize p a > evalCap then .skip "size cap" else
        match Eval.exactSign p a with
        | none => .skip "sign out of fuel"
        | some w =>
          let tag := s!"ev/cons/{c}/{if w = 0 then "zero" else "nonzero"}"
          if (b ≠ 0) = Eval.consistent c w then .ok tag else .viol tag s!"got {b}, exact sign {w}"
    | _, _, _, _ => .skip "parse"
  | "value", [ps, as], [v] =>
    match pPolyRaw? ps, pAsg? as, pVal? v with
    | some raw, some av, some v =>
      match asgOperandsOk av, asgToZ av, valOk v with
      | some m, _, _ => .viol "state/operand-repr" m
      | none, none, _ => .skip "infinite value in assignment"
      | none, some a, .ok _ =>
        let p := MPoly.normalize none raw
        if Eval.elimSize p a > evalCap then .skip "size cap" else
        match v.toZ? with
        | none => .viol "ev/value" "non-finite value"
        | some t =>
          match Eval.exactValue p a with
          | none => .skip "value inconclusive"
          | some (R, J) =>
            match ZAlg.isThe R J t.a with
            | none => .skip "fuel"
            | some true => .ok s!"ev/value/{asgKinds av}/{v.kind}"
            | some false => .viol s!"ev/value" "the value is not p at the assignment"
      | none, some _, w => w
    | _, _, _ => .skip "parse"
  | _, _, _ => .skip s!"unknown ev op {op}"

end LP.Driver
