/-
  C14 — the root count of the model is the number of distinct roots (`rootCountFp_spec`), for every prime p < 2^4096 and every
  coefficient list that is not the zero polynomial modulo p: the extended Euclid of the model returns a gcd
  (`xgcdLoop_gcd`, `xgcd_gcd`: every step keeps the gcd up to a unit, the fuel suffices), the modular powering gives X^p
  modulo f (`fpPowMod_spec`), so the polynomial handed to Euclid has the same gcd with f as X^p − X, whose degree counts the
  roots (`roots_count_gcd`).
-/
import LP.Props.C14PowMod
import LP.Props.C14RootCount

set_option linter.unusedSectionVars false

namespace LP
namespace FPoly
open Polynomial LP.Driver

variable (p : Nat) [hpr : Fact p.Prime]

/-- one step of Euclid keeps the gcd up to a unit -/
theorem gcd_step (R0 R1 Q R : (ZMod p)[X]) (h : R0 = Q * R1 + R) :
    Associated (EuclideanDomain.gcd R1 R) (EuclideanDomain.gcd R0 R1) := by
  apply associated_of_dvd_dvd
  · refine EuclideanDomain.dvd_gcd ?_ (EuclideanDomain.gcd_dvd_left R1 R)
    rw [h]
    exact dvd_add (Dvd.dvd.mul_left (EuclideanDomain.gcd_dvd_left R1 R) Q) (EuclideanDomain.gcd_dvd_right R1 R)
  · refine EuclideanDomain.dvd_gcd (EuclideanDomain.gcd_dvd_right R0 R1) ?_
    have : R = R0 - Q * R1 := by rw [h]; ring
    rw [this]
    exact dvd_sub (EuclideanDomain.gcd_dvd_left R0 R1) (Dvd.dvd.mul_left (EuclideanDomain.gcd_dvd_right R0 R1) Q)

/-- **the extended Euclid of the model returns a gcd** (first component, up to a unit) -/
theorem xgcdLoop_gcd : ∀ (fuel : Nat) (r0 r1 s0 s1 t0 t1 : FPoly), msize p r1 < fuel →
    Associated (toPolyF p (xgcdLoop p fuel r0 r1 s0 s1 t0 t1).1) (EuclideanDomain.gcd (toPolyF p r0) (toPolyF p r1)) := by
  intro fuel
  induction fuel with
  | zero => intro r0 r1 s0 s1 t0 t1 h; omega
  | succ n ih =>
    intro r0 r1 s0 s1 t0 t1 hm
    unfold xgcdLoop
    by_cases he : (norm p r1).isEmpty = true
    · rw [if_pos he]
      have h0 : toPolyF p r1 = 0 := (norm_eq_nil_iff p r1).1 (by simpa using he)
      rw [h0, EuclideanDomain.gcd_zero_right, toPolyF_norm]
    · rw [if_neg he]
      dsimp only
      have hne : norm p r1 ≠ [] := by simpa using he
      obtain ⟨hid, hdeg⟩ := divMod_spec p r0 r1 hne
      have hR1 : toPolyF p r1 ≠ 0 := fun h0 => hne ((norm_eq_nil_iff p r1).2 h0)
      have hms : msize p (divMod p r0 r1).2 < n := by
        unfold msize at hm ⊢
        rw [if_neg hR1] at hm
        by_cases h0 : toPolyF p (divMod p r0 r1).2 = 0
        · rw [if_pos h0]; omega
        · rw [if_neg h0]
          have := natDegree_lt_natDegree h0 hdeg
          omega
      exact (ih r1 (divMod p r0 r1).2 _ _ _ _ hms).trans (gcd_step p _ _ _ _ hid)

theorem xgcd_gcd (a b : FPoly) :
    Associated (toPolyF p (xgcd p a b).1) (EuclideanDomain.gcd (toPolyF p a) (toPolyF p b)) := by
  unfold xgcd
  have := xgcdLoop_gcd p (a.length + b.length + 2) (norm p a) (norm p b) [1] [] [] [1]
    (by have := msize_le_length p (norm p b)
        have h2 : (norm p b).length ≤ b.length := by
          unfold norm trim
          rw [List.length_reverse]
          exact le_trans (List.dropWhile_sublist _).length_le (by simp)
        omega)
  rwa [toPolyF_norm, toPolyF_norm] at this


/-- **the root count of the model is the number of distinct roots** (f not the zero polynomial, p < 2^4096) -/
theorem rootCountFp_spec (f : FPoly) (hf : toPolyF p f ≠ 0) (hp4096 : p < 2 ^ 4096) :
    rootCountFp p f = (toPolyF p f).roots.toFinset.card := by
  have hp : 0 < p := hpr.out.pos
  have hfn : norm p f ≠ [] := fun h => hf ((norm_eq_nil_iff p f).1 h)
  obtain ⟨hdeg, _, _⟩ := natDegree_norm p f hfn
  unfold rootCountFp
  dsimp only
  by_cases hl : (norm p f).length ≤ 1
  · -- a non-zero constant has no root
    rw [if_pos hl]
    have hd0 : (toPolyF p f).natDegree = 0 := by omega
    have hc := eq_C_of_natDegree_eq_zero hd0
    rw [hc, roots_C]; simp
  · rw [if_neg hl]
    set f' := norm p f with hf'
    have hf'n : norm p f' ≠ [] := by rw [hf', norm_idem]; exact hfn
    have hF' : toPolyF p f' = toPolyF p f := toPolyF_norm p f
    have hpow := fpPowMod_spec p [0, 1] f' hf'n 4096 p hp4096
    have hX : toPolyF p [0, 1] = X := by
      rw [toPolyF_cons, toPolyF_cons, toPolyF_nil]; simp
    rw [hX, hF'] at hpow
    -- the second argument of the gcd is congruent to X^p - X modulo f
    have hsub : toPolyF p (sub p (fpPowMod p [0, 1] f' 4096 p) [0, 1]) = toPolyF p (fpPowMod p [0, 1] f' 4096 p) - X := by
      rw [toPolyF_sub, hX]
    have hassoc1 := xgcd_gcd p f' (sub p (fpPowMod p [0, 1] f' 4096 p) [0, 1])
    rw [hF', hsub] at hassoc1
    have hassoc2 : Associated (EuclideanDomain.gcd (toPolyF p f) (toPolyF p (fpPowMod p [0, 1] f' 4096 p) - X))
        (EuclideanDomain.gcd (toPolyF p f) (X ^ p - X)) := by
      obtain ⟨k, hk⟩ := hpow
      apply associated_of_dvd_dvd
      · refine EuclideanDomain.dvd_gcd (EuclideanDomain.gcd_dvd_left _ _) ?_
        have : (X ^ p - X : (ZMod p)[X]) = (toPolyF p (fpPowMod p [0, 1] f' 4096 p) - X) - toPolyF p f * k := by
          rw [← hk]; ring
        rw [this]
        exact dvd_sub (EuclideanDomain.gcd_dvd_right _ _) (Dvd.dvd.mul_right (EuclideanDomain.gcd_dvd_left _ _) k)
      · refine EuclideanDomain.dvd_gcd (EuclideanDomain.gcd_dvd_left _ _) ?_
        have : toPolyF p (fpPowMod p [0, 1] f' 4096 p) - X = (X ^ p - X) + toPolyF p f * k := by
          rw [← hk]; ring
        rw [this]
        exact dvd_add (EuclideanDomain.gcd_dvd_right _ _) (Dvd.dvd.mul_right (EuclideanDomain.gcd_dvd_left _ _) k)
    have hassoc := hassoc1.trans hassoc2
    -- degrees of associated polynomials agree
    have hg0 : EuclideanDomain.gcd (toPolyF p f) (X ^ p - X) ≠ 0 := by
      intro h0
      exact hf (by
        have := EuclideanDomain.gcd_dvd_left (toPolyF p f) (X ^ p - X)
        rw [h0] at this; exact zero_dvd_iff.1 this)
    have hx0 : toPolyF p (xgcd p f' (sub p (fpPowMod p [0, 1] f' 4096 p) [0, 1])).1 ≠ 0 := by
      intro h0
      rw [h0] at hassoc
      exact hg0 ((associated_zero_iff_eq_zero _).1 hassoc.symm)
    have hxn : norm p (xgcd p f' (sub p (fpPowMod p [0, 1] f' 4096 p) [0, 1])).1 ≠ [] :=
      fun h => hx0 ((norm_eq_nil_iff p _).1 h)
    have hdx := (natDegree_norm p _ hxn).1
    have hdd := degree_eq_degree_of_associated hassoc
    have hnd : (toPolyF p (xgcd p f' (sub p (fpPowMod p [0, 1] f' 4096 p) [0, 1])).1).natDegree =
        (EuclideanDomain.gcd (toPolyF p f) (X ^ p - X)).natDegree := natDegree_eq_of_degree_eq hdd
    unfold Factor.fpDeg
    rw [← hdx, hnd]
    exact roots_count_gcd p (toPolyF p f) hf

end FPoly
end LP
