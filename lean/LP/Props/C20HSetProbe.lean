/-
  C20 — the probe-chain invariant of the open-addressing table (`PC`: every stored element sits at an offset from its home
  slot with no empty slot on the way) makes every stored key reachable (`contains_complete`); filling the slot a probe
  sequence stopped at keeps it (`pc_fill`), so do `insert` and the re-hash of the growth (`insert_pc`, `extend_pc`), and with
  the load-factor bookkeeping (`Good`, `insert_good`: the table always has a free slot, so every probe answers) membership
  after any history of insertions is exactly "a polynomial with this key was inserted" (`C20_hset_insert_only_partial`).
  PARTIAL: histories with removals are not covered — that the backward shift of `lp_polynomial_hash_set_remove` keeps the
  invariant is not proved (it is tied by the slot-exact correspondence, and `shiftBack_perm` shows it loses nothing).
-/
import LP.Props.C20HSet
namespace LP
namespace HSet

/-- probe-chain invariant: every stored element sits at some offset `d` from its home slot, and no slot on the way is empty -/
def PC (data : Array (Option Elem)) : Prop :=
  ∀ j e, j < data.size → data.getD j none = some e →
    ∃ d, d < data.size ∧ (home data.size e + d) % data.size = j ∧
      ∀ d', d' < d → data.getD ((home data.size e + d') % data.size) none ≠ none

/-- walking the probe sequence: a slot holding the key at offset `d`, no empty slot before it ⇒ the key is found -/
theorem probe_walk (data : Array (Option Elem)) (key : Nat) : ∀ (d fuel i : Nat), d < fuel → i < data.size →
    (∃ e, data.getD ((i + d) % data.size) none = some e ∧ e.key = key) →
    (∀ d', d' < d → data.getD ((i + d') % data.size) none ≠ none) →
    ∃ j, probe data key fuel i = some (j, true) := by
  intro d
  induction d with
  | zero =>
    intro fuel i hf hi ⟨e, he, hk⟩ _
    obtain ⟨f, rfl⟩ : ∃ f, fuel = f + 1 := ⟨fuel - 1, by omega⟩
    unfold probe
    rw [Nat.add_zero, Nat.mod_eq_of_lt hi] at he
    rw [he]
    simp [hk]
  | succ d ih =>
    intro fuel i hf hi ⟨e, he, hk⟩ hall
    obtain ⟨f, rfl⟩ : ∃ f, fuel = f + 1 := ⟨fuel - 1, by omega⟩
    unfold probe
    have h0 := hall 0 (by omega)
    rw [Nat.add_zero, Nat.mod_eq_of_lt hi] at h0
    cases hs : data.getD i none with
    | none => exact absurd hs h0
    | some y =>
      dsimp only
      by_cases hy : y.key = key
      · rw [if_pos hy]; exact ⟨i, rfl⟩
      · rw [if_neg hy]
        have hn : 0 < data.size := by omega
        refine ih f ((i + 1) % data.size) (by omega) (Nat.mod_lt _ hn) ⟨e, ?_, hk⟩ ?_
        · rw [Nat.mod_add_mod]
          have : i + 1 + d = i + (d + 1) := by omega
          rw [this]; exact he
        · intro d' hd'
          rw [Nat.mod_add_mod]
          have : i + 1 + d' = i + (d' + 1) := by omega
          rw [this]; exact hall (d' + 1) (by omega)

/-- **under the probe-chain invariant every stored key is found** -/
theorem contains_complete (s : HSet) (hpc : PC s.data) (j : Nat) (x e : Elem) (hj : j < s.data.size)
    (hx : s.data.getD j none = some x) (hk : x.key = e.key) (hh : x.hash = e.hash) : s.contains e = true := by
  obtain ⟨d, hd, hdj, hall⟩ := hpc j x hj hx
  have hn : 0 < s.data.size := by omega
  have hhome : home s.data.size e = home s.data.size x := by unfold home; rw [hh]
  obtain ⟨j', hj'⟩ := probe_walk s.data e.key d s.data.size (home s.data.size e) hd (Nat.mod_lt _ hn)
    ⟨x, by rw [hhome, hdj]; exact hx, hk⟩ (by rw [hhome]; exact hall)
  unfold contains
  rw [hj']

/-- the probe stops at an offset from its start with no empty slot on the way -/
theorem probe_offset (data : Array (Option Elem)) (key : Nat) : ∀ (fuel i j : Nat) (found : Bool), i < data.size →
    probe data key fuel i = some (j, found) →
    ∃ d, d < fuel ∧ (i + d) % data.size = j ∧ ∀ d', d' < d → data.getD ((i + d') % data.size) none ≠ none := by
  intro fuel
  induction fuel with
  | zero => intro i j f _ h; simp [probe] at h
  | succ n ih =>
    intro i j f hi h
    unfold probe at h
    cases hd : data.getD i none with
    | none =>
      rw [hd] at h
      simp only [Option.some.injEq, Prod.mk.injEq] at h
      exact ⟨0, by omega, by rw [Nat.add_zero, Nat.mod_eq_of_lt hi]; exact h.1, fun d' hd' => by omega⟩
    | some e =>
      rw [hd] at h
      simp only at h
      split_ifs at h with hk
      · simp only [Option.some.injEq, Prod.mk.injEq] at h
        exact ⟨0, by omega, by rw [Nat.add_zero, Nat.mod_eq_of_lt hi]; exact h.1, fun d' hd' => by omega⟩
      · have hn : 0 < data.size := by omega
        obtain ⟨d, hdl, hdj, hall⟩ := ih _ _ _ (Nat.mod_lt _ hn) h
        refine ⟨d + 1, by omega, ?_, ?_⟩
        · rw [Nat.mod_add_mod] at hdj
          have : i + (d + 1) = i + 1 + d := by omega
          rw [this]; exact hdj
        · intro d' hd'
          by_cases h0 : d' = 0
          · subst h0
            rw [Nat.add_zero, Nat.mod_eq_of_lt hi, hd]; simp
          · have := hall (d' - 1) (by omega)
            rw [Nat.mod_add_mod] at this
            have e2 : i + 1 + (d' - 1) = i + d' := by omega
            rw [e2] at this; exact this

theorem probeEmpty_offset (data : Array (Option Elem)) : ∀ (fuel i j : Nat), i < data.size →
    probeEmpty data fuel i = some j →
    ∃ d, d < fuel ∧ (i + d) % data.size = j ∧ ∀ d', d' < d → data.getD ((i + d') % data.size) none ≠ none := by
  intro fuel
  induction fuel with
  | zero => intro i j _ h; simp [probeEmpty] at h
  | succ n ih =>
    intro i j hi h
    unfold probeEmpty at h
    cases hd : data.getD i none with
    | none =>
      rw [hd] at h
      simp only [Option.some.injEq] at h
      exact ⟨0, by omega, by rw [Nat.add_zero, Nat.mod_eq_of_lt hi]; exact h, fun d' hd' => by omega⟩
    | some e =>
      rw [hd] at h
      simp only at h
      have hn : 0 < data.size := by omega
      obtain ⟨d, hdl, hdj, hall⟩ := ih _ _ (Nat.mod_lt _ hn) h
      refine ⟨d + 1, by omega, ?_, ?_⟩
      · rw [Nat.mod_add_mod] at hdj
        have : i + (d + 1) = i + 1 + d := by omega
        rw [this]; exact hdj
      · intro d' hd'
        by_cases h0 : d' = 0
        · subst h0
          rw [Nat.add_zero, Nat.mod_eq_of_lt hi, hd]; simp
        · have := hall (d' - 1) (by omega)
          rw [Nat.mod_add_mod] at this
          have e2 : i + 1 + (d' - 1) = i + d' := by omega
          rw [e2] at this; exact this

/-- filling the slot a probe sequence stopped at keeps the invariant -/
theorem pc_fill (data : Array (Option Elem)) (e : Elem) (i : Nat) (hi : i < data.size) (hpc : PC data)
    (hoff : ∃ d, d < data.size ∧ (home data.size e + d) % data.size = i ∧
      ∀ d', d' < d → data.getD ((home data.size e + d') % data.size) none ≠ none) :
    PC (data.set! i (some e)) := by
  have hsz : (data.set! i (some e)).size = data.size := by simp
  intro j x hj hx
  rw [hsz] at hj ⊢
  rw [getD_set!' _ _ _ _ hi] at hx
  have keep : ∀ k, data.getD k none ≠ none → (data.set! i (some e)).getD k none ≠ none := by
    intro k hk
    rw [getD_set!' _ _ _ _ hi]
    by_cases e1 : k = i
    · rw [if_pos e1]; simp
    · rw [if_neg e1]; exact hk
  by_cases e1 : j = i
  · rw [if_pos e1] at hx
    have : x = e := by simpa using hx.symm
    subst this
    obtain ⟨d, hd, hdi, hall⟩ := hoff
    exact ⟨d, hd, by rw [hdi, e1], fun d' hd' => keep _ (hall d' hd')⟩
  · rw [if_neg e1] at hx
    obtain ⟨d, hd, hdj, hall⟩ := hpc j x hj hx
    exact ⟨d, hd, hdj, fun d' hd' => keep _ (hall d' hd')⟩

theorem pc_replicate (n : Nat) : PC (Array.replicate n none) := by
  intro j e hj hx
  have hj' : j < n := by simpa using hj
  have : (Array.replicate n (none : Option Elem)).getD j none = none := by
    simp [Array.getD, hj']
  rw [this] at hx
  exact absurd hx (by simp)


/-- the re-hash of the growth keeps the invariant -/
theorem rehash_pc (N : Nat) : ∀ (l : List (Option Elem)) (acc : Array (Option Elem)), acc.size = N → PC acc →
    (l.foldl (rehashStep N) acc).size = N ∧ PC (l.foldl (rehashStep N) acc) := by
  intro l
  induction l with
  | nil => intro acc hs hpc; exact ⟨hs, hpc⟩
  | cons a l ih =>
    intro acc hs hpc
    rw [List.foldl_cons]
    cases a with
    | none => exact ih acc hs hpc
    | some e =>
      cases hpe : probeEmpty acc N (home N e) with
      | none =>
        have : rehashStep N acc (some e) = acc := by unfold rehashStep; dsimp only; rw [hpe]
        rw [this]; exact ih acc hs hpc
      | some i =>
        have hstep : rehashStep N acc (some e) = acc.set! i (some e) := by unfold rehashStep; dsimp only; rw [hpe]
        rw [hstep]
        have hN : 0 < N := by
          rcases Nat.eq_zero_or_pos N with h0 | h0
          · subst h0; simp [probeEmpty] at hpe
          · exact h0
        have hhome : home N e < acc.size := by rw [hs]; exact Nat.mod_lt _ hN
        obtain ⟨d, hd, hdi, hall⟩ := probeEmpty_offset acc N (home N e) i hhome hpe
        have hi : i < acc.size := by rw [← hdi]; exact Nat.mod_lt _ (by omega)
        have e1 : home acc.size e = home N e := by rw [hs]
        refine ih _ (by simp [hs]) (pc_fill acc e i hi hpc ⟨d, by omega, ?_, ?_⟩)
        · rw [e1]; exact hdi
        · rw [e1]; exact hall

theorem extend_pc (s : HSet) : PC (extend s).data := by
  rw [extend_data, ← Array.foldl_toList]
  exact (rehash_pc (s.data.size * 2) s.data.toList _ (by simp) (pc_replicate _)).2

/-- **insert keeps the probe-chain invariant** (growth included) -/
theorem insert_pc (s : HSet) (e : Elem) (hs : 0 < s.data.size) (hpc : PC s.data) : PC (insert s e).1.data := by
  unfold insert
  cases hp : probe s.data e.key s.data.size (home s.data.size e) with
  | none => exact hpc
  | some r =>
    obtain ⟨i, found⟩ := r
    cases found with
    | true => exact hpc
    | false =>
      dsimp only
      have hi := probe_lt s.data e.key _ _ i false (Nat.mod_lt _ hs) hp
      obtain ⟨d, hd, hdi, hall⟩ := probe_offset s.data e.key _ _ i false (Nat.mod_lt _ hs) hp
      have h1 : PC (s.data.set! i (some e)) := pc_fill s.data e i hi hpc ⟨d, hd, hdi, hall⟩
      split
      · exact extend_pc _
      · exact h1

theorem mem_slots_iff (data : Array (Option Elem)) (y : Elem) :
    y ∈ slots data ↔ ∃ j, j < data.size ∧ data.getD j none = some y := by
  unfold slots
  rw [List.mem_filterMap]
  constructor
  · rintro ⟨o, ho, hy⟩
    obtain ⟨k, hk, rfl⟩ := List.getElem_of_mem ho
    have hk' : k < data.size := by simpa using hk
    exact ⟨k, hk', by rw [getD_toList data k hk']; exact hy⟩
  · rintro ⟨j, hj, hy⟩
    refine ⟨some y, ?_, rfl⟩
    rw [getD_toList data j hj] at hy
    rw [← hy]
    exact List.getElem_mem _

/-- the probe answers whenever some slot on its way is empty -/
theorem probe_answers (data : Array (Option Elem)) (key : Nat) : ∀ (fuel i : Nat), i < data.size →
    (∃ d, d < fuel ∧ data.getD ((i + d) % data.size) none = none) → ∃ r, probe data key fuel i = some r := by
  intro fuel
  induction fuel with
  | zero => intro i _ ⟨d, hd, _⟩; omega
  | succ f ih =>
    intro i hi ⟨d, hd, hn⟩
    unfold probe
    cases hg : data.getD i none with
    | none => exact ⟨_, rfl⟩
    | some x =>
      dsimp only
      split
      · exact ⟨_, rfl⟩
      · have hd0 : d ≠ 0 := by
          intro h0
          subst h0
          rw [Nat.add_zero, Nat.mod_eq_of_lt hi, hg] at hn
          exact absurd hn (by simp)
        refine ih ((i + 1) % data.size) (Nat.mod_lt _ (by omega)) ⟨d - 1, by omega, ?_⟩
        rw [Nat.mod_add_mod]
        have : i + 1 + (d - 1) = i + d := by omega
        rw [this]; exact hn

/-- the invariants of the table that every history of insertions keeps -/
structure Good (s : HSet) : Prop where
  pos : 64 ≤ s.data.size
  pc : PC s.data
  cnt : s.size = (slots s.data).length
  le : s.size ≤ s.threshold
  thr : s.threshold = thresholdOf s.data.size

theorem good_empty : Good HSet.empty := by
  refine ⟨by simp [HSet.empty, defaultSize], ?_, ?_, ?_, ?_⟩
  · exact pc_replicate _
  · simp [HSet.empty, slots]
  · simp [HSet.empty]
  · simp [HSet.empty]

/-- a good table always has a free slot, so the probe always answers -/
theorem good_probe (s : HSet) (hg : Good s) (key start : Nat) (hst : start < s.data.size) :
    ∃ r, probe s.data key s.data.size start = some r := by
  have hfree : (slots s.data).length < s.data.size := by
    have h1 := hg.cnt; have h2 := hg.le; have h3 := hg.thr; have h4 := hg.pos
    unfold thresholdOf at h3
    omega
  obtain ⟨k, hk, hkn⟩ := exists_none s.data hfree
  obtain ⟨d, hd, hdk⟩ := exists_offset s.data.size start k hst hk
  exact probe_answers s.data key s.data.size start hst ⟨d, hd, by rw [hdk]; exact hkn⟩

/-- **insert keeps the invariants** (growth included) -/
theorem insert_good (s : HSet) (e : Elem) (hg : Good s) : Good (insert s e).1 := by
  have hs : 0 < s.data.size := by have := hg.pos; omega
  have h1 := hg.cnt; have h2 := hg.le; have h3 := hg.thr; have h4 := hg.pos
  unfold insert
  cases hp : probe s.data e.key s.data.size (home s.data.size e) with
  | none => exact hg
  | some r =>
    obtain ⟨i, found⟩ := r
    cases found with
    | true => exact hg
    | false =>
      dsimp only
      have hi := probe_lt s.data e.key _ _ i false (Nat.mod_lt _ hs) hp
      have hn := (probe_spec s.data e.key _ _ i false hp).2 rfl
      obtain ⟨d, hd, hdi, hall⟩ := probe_offset s.data e.key _ _ i false (Nat.mod_lt _ hs) hp
      have hfill := slots_fill s.data i e hi hn
      have hpc1 : PC (s.data.set! i (some e)) := pc_fill s.data e i hi hg.pc ⟨d, hd, hdi, hall⟩
      have hsz1 : (s.data.set! i (some e)).size = s.data.size := by simp
      have hlen1 : (slots (s.data.set! i (some e))).length = s.size + 1 := by
        rw [hfill.length_eq, h1]; simp
      by_cases hgr : s.size + 1 > s.threshold
      · rw [if_pos hgr]
        generalize hs1 : HSet.mk (s.data.set! i (some e)) (s.size + 1) s.threshold s.closed = s1
        have hd1 : s1.data = s.data.set! i (some e) := by rw [← hs1]
        have hsize1 : s1.size = s.size + 1 := by rw [← hs1]
        have hpos1 : 0 < s1.data.size := by rw [hd1, hsz1]; exact hs
        have hsz := extend_size s1 hpos1
        have hperm := extend_perm s1 hpos1
        rw [closeList_eq, closeList_eq] at hperm
        refine ⟨?_, extend_pc s1, ?_, ?_, ?_⟩
        · rw [hsz, hd1, hsz1]; omega
        · show s1.size = _
          rw [hperm.length_eq, hd1, hlen1, hsize1]
        · show s1.size ≤ thresholdOf (s1.data.size * 2)
          rw [hsize1, hd1, hsz1]
          unfold thresholdOf at h3 ⊢
          omega
        · show thresholdOf (s1.data.size * 2) = thresholdOf (extend s1).data.size
          rw [hsz]
      · rw [if_neg hgr]
        refine ⟨?_, hpc1, ?_, ?_, ?_⟩
        · show 64 ≤ (s.data.set! i (some e)).size
          rw [hsz1]; exact h4
        · show s.size + 1 = _
          rw [hlen1]
        · show s.size + 1 ≤ s.threshold
          omega
        · show s.threshold = thresholdOf (s.data.set! i (some e)).size
          rw [hsz1]; exact h3

/-- the table after inserting a list of elements into the empty table -/
def insertAll (es : List Elem) : HSet := es.foldl (fun s e => (insert s e).1) HSet.empty

/-- **partial (histories of insertions only): membership is exactly "a polynomial with this key was inserted"**.
    `hh`: the hash is a function of the key (equal polynomials have equal hashes).  Histories with removals are not
    covered: that the backward shift of a removal keeps the probe-chain invariant is not proved. -/
theorem C20_hset_insert_only_partial (es : List Elem) (e : Elem)
    (hh : ∀ x y : Elem, x ∈ e :: es → y ∈ e :: es → x.key = y.key → x.hash = y.hash) :
    (insertAll es).contains e = true ↔ ∃ x ∈ es, x.key = e.key := by
  -- invariant of the fold
  have inv : ∀ (l : List Elem) (s : HSet) (done : List Elem), Good s →
      (∀ x ∈ done, ∃ y ∈ slots s.data, y.key = x.key) → (∀ y ∈ slots s.data, y ∈ done) →
      Good (l.foldl (fun s e => (insert s e).1) s) ∧
      (∀ x ∈ done ++ l, ∃ y ∈ slots (l.foldl (fun s e => (insert s e).1) s).data, y.key = x.key) ∧
        (∀ y ∈ slots (l.foldl (fun s e => (insert s e).1) s).data, y ∈ done ++ l) := by
    intro l
    induction l with
    | nil => intro s done h1 h3 h4; simpa using ⟨h1, h3, h4⟩
    | cons a l ih =>
      intro s done hg h3 h4
      have hs : 0 < s.data.size := by have := hg.pos; omega
      have key : (∀ x ∈ done ++ [a], ∃ y ∈ slots (insert s a).1.data, y.key = x.key) ∧
          (∀ y ∈ slots (insert s a).1.data, y ∈ done ++ [a]) := by
        cases hr : (insert s a).2 with
        | true =>
          have hperm := C20_hset_insert_perm_any s a hs hr
          rw [closeList_eq, closeList_eq] at hperm
          constructor
          · intro x hx
            rcases List.mem_append.1 hx with hx | hx
            · obtain ⟨y, hy, hk⟩ := h3 x hx
              exact ⟨y, hperm.symm.subset (List.mem_cons_of_mem _ hy), hk⟩
            · rw [List.mem_singleton] at hx; subst hx
              exact ⟨x, hperm.symm.subset List.mem_cons_self, rfl⟩
          · intro y hy
            rcases List.mem_cons.1 (hperm.subset hy) with rfl | hy'
            · simp
            · exact List.mem_append_left _ (h4 y hy')
        | false =>
          have hsame := C20_hset_insert_found s a hr
          rw [hsame]
          constructor
          · intro x hx
            rcases List.mem_append.1 hx with hx | hx
            · exact h3 x hx
            · rw [List.mem_singleton] at hx; subst hx
              obtain ⟨r, hp⟩ := good_probe s hg x.key (home s.data.size x) (Nat.mod_lt _ hs)
              unfold insert at hr
              rw [hp] at hr
              obtain ⟨i, found⟩ := r
              cases found with
              | false => simp at hr
              | true =>
                obtain ⟨y, hy, hk⟩ := (probe_spec s.data x.key _ _ i true hp).1 rfl
                have hi := probe_lt s.data x.key _ _ i true (Nat.mod_lt _ hs) hp
                exact ⟨y, (mem_slots_iff _ _).2 ⟨i, hi, hy⟩, hk⟩
          · intro y hy; exact List.mem_append_left _ (h4 y hy)
      have := ih (insert s a).1 (done ++ [a]) (insert_good s a hg) key.1 key.2
      simpa [List.append_assoc] using this
  obtain ⟨hg, hst, hsub⟩ := inv es HSet.empty [] good_empty (by simp) (by simp [HSet.empty, slots])
  simp only [List.nil_append] at hst hsub
  unfold insertAll
  constructor
  · intro hc
    obtain ⟨j, x, hx, hk⟩ := C20_contains_sound _ e hc
    have hj : j < (es.foldl (fun s e => (insert s e).1) HSet.empty).data.size := by
      by_contra hge
      have : (es.foldl (fun s e => (insert s e).1) HSet.empty).data.getD j none = none := by
        simp [Array.getD, hge]
      rw [this] at hx; exact absurd hx (by simp)
    exact ⟨x, hsub x ((mem_slots_iff _ _).2 ⟨j, hj, hx⟩), hk⟩
  · rintro ⟨x, hx, hk⟩
    obtain ⟨y, hy, hyk⟩ := hst x hx
    obtain ⟨j, hj, hyj⟩ := (mem_slots_iff _ _).1 hy
    have hye : y ∈ e :: es := List.mem_cons_of_mem _ (hsub y hy)
    exact contains_complete _ hg.pc j y e hj hyj (hyk.trans hk)
      (hh y e hye List.mem_cons_self (hyk.trans hk))

end HSet
end LP