/* C10 / C11 / C12 harness: polynomials under assignments of integer, dyadic, rational and real algebraic values.
 *   ev sgn P asg => s            lp_polynomial_sgn
 *   ev value P asg => V          lp_polynomial_evaluate
 *   ev cons P cond asg => b      lp_polynomial_constraint_evaluate
 *   ev roots P asg => n V1..Vn   lp_polynomial_roots_isolate           (main variable x3 unassigned)
 *   ev fs P cond neg asg => S    lp_polynomial_constraint_get_feasible_set
 *   ev rfs P k cond neg asg => S lp_polynomial_root_constraint_get_feasible_set
 *   ev rcons P k cond asg yV => b  lp_polynomial_root_constraint_evaluate (x3 := yV)
 * asg = i=V;j=V;...   S = {I;I;...} with value end points
 * Scenarios: value tuples with algebraic dependencies (sqrt2, sqrt3, sqrt6; conjugates; cubic roots), polynomials built
 * as q*T + c with T vanishing on the tuple and c in {0, +-1}, random polynomials, leading coefficients that vanish under
 * the assignment, and a family stressing the root-separation bound of the zero test.
 */
#define LPV_CASE_TIMEOUT 120
#include "halg.h"
#include <assignment.h>
#include <feasibility_set.h>
#include <sign_condition.h>
#include <variable_order.h>

static lp_assignment_t* M;
static lp_value_t vals[3]; static int nvals;

/* ---------- small polynomial construction kit (all results are fresh, arguments are consumed) */
static lp_polynomial_t* P_new(void) { return lp_polynomial_new(hp_ctx[0]); }
static lp_polynomial_t* P_const(long c) {
  lp_polynomial_t* p = lp_polynomial_alloc(); lp_integer_t z; lp_integer_construct_from_int(lp_Z, &z, c);
  lp_polynomial_construct_simple(p, hp_ctx[0], &z, hp_x[0], 0); lp_integer_destruct(&z); return p;
}
static lp_polynomial_t* P_var(int i, unsigned e) {
  lp_polynomial_t* p = lp_polynomial_alloc(); lp_integer_t z; lp_integer_construct_from_int(lp_Z, &z, 1);
  lp_polynomial_construct_simple(p, hp_ctx[0], &z, hp_x[i], e); lp_integer_destruct(&z); return p;
}
static lp_polynomial_t* P_add(lp_polynomial_t* a, lp_polynomial_t* b) { lp_polynomial_t* r = P_new(); lp_polynomial_add(r, a, b); lp_polynomial_delete(a); lp_polynomial_delete(b); return r; }
static lp_polynomial_t* P_sub(lp_polynomial_t* a, lp_polynomial_t* b) { lp_polynomial_t* r = P_new(); lp_polynomial_sub(r, a, b); lp_polynomial_delete(a); lp_polynomial_delete(b); return r; }
static lp_polynomial_t* P_mul(lp_polynomial_t* a, lp_polynomial_t* b) { lp_polynomial_t* r = P_new(); lp_polynomial_mul(r, a, b); lp_polynomial_delete(a); lp_polynomial_delete(b); return r; }
static lp_polynomial_t* P_scale(lp_polynomial_t* a, long c) { return P_mul(a, P_const(c)); }

/* ---------- values */
static void val_root(lp_value_t* v, int deg, const long* c, int which) {
  lp_upolynomial_t* f = lp_upolynomial_construct_from_long(lp_Z, deg, c);
  lp_algebraic_number_t roots[6]; size_t n = 0;
  lp_upolynomial_roots_isolate(f, roots, &n);
  if (which < 0) which = (int)n + which;
  if (which < 0) which = 0;
  if (which >= (int)n) which = (int)n - 1;
  lp_value_construct(v, LP_VALUE_ALGEBRAIC, &roots[which]);
  for (size_t i = 0; i < n; ++i) lp_algebraic_number_destruct(&roots[i]);
  lp_upolynomial_delete(f);
}
static void val_rat(lp_value_t* v, long num, unsigned long den) {
  lp_rational_t q; lp_rational_construct_from_int(&q, num, den);
  unsigned k = rnd(4);
  if (lp_rational_is_integer(&q) && k == 0) { lp_integer_t z; lp_integer_construct(&z); lp_rational_get_num(&q, &z); lp_value_construct(v, LP_VALUE_INTEGER, &z); lp_integer_destruct(&z); }
  else if ((den & (den - 1)) == 0 && k == 1) { unsigned n = 0; while ((1ul << n) < den) ++n; lp_dyadic_rational_t d; lp_dyadic_rational_construct_from_int(&d, num, n); lp_value_construct(v, LP_VALUE_DYADIC_RATIONAL, &d); lp_dyadic_rational_destruct(&d); }
  else if (k == 2) { lp_algebraic_number_t a; lp_algebraic_number_construct_from_rational(&a, &q); lp_value_construct(v, LP_VALUE_ALGEBRAIC, &a); lp_algebraic_number_destruct(&a); }
  else lp_value_construct(v, LP_VALUE_RATIONAL, &q);
  lp_rational_destruct(&q);
}
static void val_random(lp_value_t* v) {
  static const long blk[][5] = { {2, -2, 0, 1}, {2, -3, 0, 1}, {2, -1, -1, 1}, {2, -5, 0, 1}, {2, -2, -2, 1}, {3, -2, 0, 0, 1}, {2, -1, 0, 2}, {2, -6, 0, 1},
    /* reducible, with a dyadic root that refinement reaches after a few steps (the value collapses to a point mid-query):
       (x^2-2)(8x-3), (x^2-3)(16x+5) */
    {3, 6, -16, -3, 8}, {3, -15, -48, 5, 16} };
  if (chance(55)) { const long* b = blk[rnd(sizeof blk / sizeof blk[0])]; val_root(v, b[0], b + 1, rnd(3)); }
  else val_rat(v, rnd_in(-6, 6), chance(50) ? 1 : 1 + rnd(5));
}

static void set_vals(void) { for (int i = 0; i < nvals; ++i) lp_assignment_set_value(M, hp_x[i], &vals[i]); }

static void sb_asg(void) {
  for (int i = 0; i < nvals; ++i) { if (i) sb_str(";"); sb_long(i); sb_str("="); sb_val(lp_assignment_get_value(M, hp_x[i])); }
  if (nvals == 0) sb_str("-");
}

/* scenario: fills vals[0..2] and returns a polynomial T vanishing at them (or 0) */
static lp_polynomial_t* scenario(int* kind) {
  static const long s2[] = { -2, 0, 1 }, s3[] = { -3, 0, 1 }, s6[] = { -6, 0, 1 }, c2[] = { -2, 0, 0, 1 }, g3[] = { -2, -2, 1 }, phi[] = { -1, -1, 1 };
  unsigned k = rnd(100);
  nvals = 3;
  lp_polynomial_t* T = 0;
  if (k < 22) {                       /* sqrt2, sqrt3, sqrt6 with signs */
    *kind = 1;
    int n2 = chance(30), n3 = chance(30);
    val_root(&vals[0], 2, s2, n2 ? 0 : 1); val_root(&vals[1], 2, s3, n3 ? 0 : 1); val_root(&vals[2], 2, s6, (n2 ^ n3) ? 0 : 1);
    unsigned t = rnd(6);
    if (t == 0) T = P_sub(P_mul(P_var(0, 1), P_var(1, 1)), P_var(2, 1));
    else if (t == 1) T = P_sub(P_var(0, 2), P_const(2));
    else if (t == 2) T = P_sub(P_mul(P_var(0, 1), P_var(2, 1)), P_scale(P_var(1, 1), 2));
    else if (t == 3) T = P_sub(P_var(2, 2), P_scale(P_var(0, 2), 3));
    else if (t == 4) T = P_sub(P_mul(P_var(1, 1), P_var(2, 1)), P_scale(P_var(0, 1), 3));
    else T = P_sub(P_mul(P_var(0, 2), P_var(1, 2)), P_var(2, 2));
  } else if (k < 36) {                /* conjugates: sqrt2, -sqrt2 */
    *kind = 2;
    val_root(&vals[0], 2, s2, 1); val_root(&vals[1], 2, s2, 0); val_random(&vals[2]);
    T = chance(50) ? P_add(P_var(0, 1), P_var(1, 1)) : P_add(P_mul(P_var(0, 1), P_var(1, 1)), P_const(2));
  } else if (k < 48) {                /* 1+sqrt3, 1-sqrt3 */
    *kind = 3;
    val_root(&vals[0], 2, g3, 1); val_root(&vals[1], 2, g3, 0); val_random(&vals[2]);
    T = chance(50) ? P_sub(P_add(P_var(0, 1), P_var(1, 1)), P_const(2)) : P_add(P_mul(P_var(0, 1), P_var(1, 1)), P_const(2));
  } else if (k < 58) {                /* cubic root of 2, golden ratio */
    *kind = 4;
    val_root(&vals[0], 3, c2, 0); val_root(&vals[1], 2, phi, 1); val_random(&vals[2]);
    T = chance(50) ? P_sub(P_var(0, 3), P_const(2)) : P_sub(P_sub(P_var(1, 2), P_var(1, 1)), P_const(1));
  } else if (k < 70) {                /* rationals only */
    *kind = 5;
    long n0 = rnd_in(-5, 5), n1 = rnd_in(-5, 5); unsigned long d0 = 1 + rnd(4), d1 = 1ul << rnd(3);
    val_rat(&vals[0], n0, d0); val_rat(&vals[1], n1, d1); val_rat(&vals[2], rnd_in(-4, 4), 1 + rnd(3));
    T = chance(50) ? P_sub(P_scale(P_var(0, 1), (long)d0), P_const(n0)) : P_sub(P_scale(P_mul(P_var(0, 1), P_var(1, 1)), (long)(d0 * d1)), P_const(n0 * n1));
  } else if (k < 82) {                /* zero-test bound family: a - M(x + x^2 + .. + x^n), p = x0 - q near the root */
    *kind = 7;
    long a = 1 + rnd(6), Mx = 2 + rnd(30); int n = 2 + rnd(3);
    long c[6]; c[0] = -a; for (int i = 1; i <= n; ++i) c[i] = Mx;
    val_root(&vals[0], n, c, -1);      /* the positive root a/(a+M) + .. */
    val_rat(&vals[1], rnd_in(-3, 3), 1 + rnd(3)); val_rat(&vals[2], rnd_in(-3, 3), 1);
    T = 0;
  } else if (k < 90) {                /* non-monic: N x^2 - (N+1), values of x^3 - x, x^2 - 1 are tiny but non-zero */
    *kind = 8;
    long N = (long)(1000 + rnd(100000)) * (long)(1 + rnd(3000));
    long c[3] = { -(N + 1), 0, N };
    val_root(&vals[0], 2, c, chance(50) ? 0 : 1);
    val_rat(&vals[1], rnd_in(-3, 3), 1 + rnd(3)); val_rat(&vals[2], rnd_in(-3, 3), 1);
    unsigned t = rnd(4);
    if (t == 0) T = P_sub(P_var(0, 3), P_var(0, 1));
    else if (t == 1) T = P_sub(P_var(0, 2), P_const(1));
    else if (t == 2) T = P_sub(P_scale(P_var(0, 2), N), P_const(N + 1));
    else T = P_mul(P_sub(P_var(0, 2), P_const(1)), P_add(P_var(1, 2), P_const(1)));
  } else if (k < 95) {
    /* the zero test's root bound at its limit: g(z) = M(z + .. + z^n) - a with a = 2^s, M = 2^(s+t) - 1 has its positive root just
       below 2^-t although max|c_i| / |c_0| < 2^t; x0 := the root of g(A*x - B) next to B/A (A = 2^m), given with an isolating
       interval that makes the first enclosure of p = A*x0 - B contain 0 and the value and still fit into (-2^-t, 2^-t) */
    *kind = 9;
    unsigned sft = rnd(3), t = 1 + rnd(3), n = 2 + rnd(3), m = 14 + rnd(8); long Bv = 1 + 2 * (long)rnd(16);
    long a = 1L << sft, Mv = (1L << (sft + t)) - 1;
    /* f(x) = M * sum_{i=1..n} (A x - B)^i - a */
    long lin[2] = { -Bv, 1L << m };
    lp_upolynomial_t* L = lp_upolynomial_construct_from_long(lp_Z, 1, lin);
    lp_upolynomial_t* acc = 0;
    for (unsigned i = 1; i <= n; ++i) { lp_upolynomial_t* pw = lp_upolynomial_pow(L, i); if (!acc) acc = pw; else { lp_upolynomial_t* s2 = lp_upolynomial_add(acc, pw); lp_upolynomial_delete(acc); lp_upolynomial_delete(pw); acc = s2; } }
    lp_integer_t Mz; lp_integer_construct_from_int(lp_Z, &Mz, Mv);
    lp_upolynomial_t* Macc = lp_upolynomial_mul_c(acc, &Mz); lp_integer_destruct(&Mz); lp_upolynomial_delete(acc);
    long ca[1] = { a }; lp_upolynomial_t* ac = lp_upolynomial_construct_from_long(lp_Z, 0, ca);
    lp_upolynomial_t* f = lp_upolynomial_sub(Macc, ac); lp_upolynomial_delete(Macc); lp_upolynomial_delete(ac); lp_upolynomial_delete(L);
    /* interval (B/A - 2^-(m+t+1), B/A + (1 - 2^-(t+2)) * 2^-(m+t)) */
    lp_dyadic_rational_t lo, hi, d; lp_dyadic_rational_construct_from_int(&lo, Bv, m); lp_dyadic_rational_construct_from_int(&hi, Bv, m);
    lp_dyadic_rational_construct_from_int(&d, 1, m + t + 1); lp_dyadic_rational_sub(&lo, &lo, &d); lp_dyadic_rational_destruct(&d);
    lp_dyadic_rational_construct_from_int(&d, (1L << (t + 2)) - 1, m + t + t + 2); lp_dyadic_rational_add(&hi, &hi, &d); lp_dyadic_rational_destruct(&d);
    /* the interval must isolate the root (for small n the root lies a little further out): otherwise use the plain point B/A */
    if (lp_upolynomial_sgn_at_dyadic_rational(f, &lo) * lp_upolynomial_sgn_at_dyadic_rational(f, &hi) < 0) {
      lp_dyadic_interval_t I; lp_dyadic_interval_construct(&I, &lo, 1, &hi, 1);
      lp_algebraic_number_t an; lp_algebraic_number_construct(&an, f, &I);
      lp_value_construct(&vals[0], LP_VALUE_ALGEBRAIC, &an); lp_algebraic_number_destruct(&an);
      lp_dyadic_interval_destruct(&I);
    } else {
      lp_upolynomial_delete(f);
      lp_dyadic_rational_t q; lp_dyadic_rational_construct_from_int(&q, Bv, m); lp_value_construct(&vals[0], LP_VALUE_DYADIC_RATIONAL, &q); lp_dyadic_rational_destruct(&q);
    }
    lp_dyadic_rational_destruct(&lo); lp_dyadic_rational_destruct(&hi);
    val_rat(&vals[1], rnd_in(-3, 3), 1 + rnd(3)); val_rat(&vals[2], rnd_in(-3, 3), 1);
    T = P_sub(P_scale(P_var(0, 1), 1L << m), P_const(Bv));
  } else {                            /* random */
    *kind = 6;
    val_random(&vals[0]); val_random(&vals[1]); val_random(&vals[2]);
    T = 0;
  }
  return T;
}

static lp_polynomial_t* build_poly(lp_polynomial_t* T, int kind) {
  if (kind == 7) {
    /* d*x0 - n with n/d a dyadic point inside the isolating interval of x0 (tiny non-zero value), times a positive scalar */
    const lp_value_t* v = &vals[0];
    lp_polynomial_t* p;
    if (v->type == LP_VALUE_ALGEBRAIC && v->value.a.f && chance(85)) {
      lp_algebraic_number_t c; lp_algebraic_number_construct_copy(&c, &v->value.a);
      for (int t = chance(40) ? rnd(4) : 16 + rnd(30); t > 0 && c.f; --t) lp_algebraic_number_refine(&c);   /* coarse, or closer than 2^-20 */
      lp_dyadic_rational_t m; lp_dyadic_rational_construct(&m);
      if (chance(50)) lp_algebraic_number_get_dyadic_midpoint(&c, &m); else lp_dyadic_rational_assign(&m, chance(50) ? &c.I.a : &c.I.b);
      lp_integer_t num, den; lp_integer_construct(&num); lp_integer_construct(&den);
      lp_dyadic_rational_get_num(&m, &num); lp_dyadic_rational_get_den(&m, &den);
      lp_polynomial_t* dx = lp_polynomial_alloc(); lp_polynomial_construct_simple(dx, hp_ctx[0], &den, hp_x[0], 1);
      lp_polynomial_t* nn = lp_polynomial_alloc(); lp_polynomial_construct_simple(nn, hp_ctx[0], &num, hp_x[0], 0);
      p = P_sub(dx, nn);
      lp_integer_destruct(&num); lp_integer_destruct(&den); lp_dyadic_rational_destruct(&m); lp_algebraic_number_destruct(&c);
    } else p = P_var(0, 1);
    if (chance(30)) p = P_mul(p, P_add(P_var(1, 2), P_const(1)));
    return p;
  }
  lp_polynomial_t* p;
  if (kind == 8) return T;
  if (kind == 9) return chance(30) ? P_mul(T, P_add(P_var(1, 2), P_const(1))) : T;      /* the value itself, or times a positive factor */
  if (T && chance(85)) {
    lp_polynomial_t* q = chance(40) ? P_const(chance(50) ? 1 : rnd_in(-3, 3)) : hp_random_poly(0, 3, 1, 2);
    if (lp_polynomial_is_zero(q)) { lp_polynomial_delete(q); q = P_const(1); }
    p = P_mul(q, T);
    unsigned c = rnd(100);
    if (c < 25) p = P_add(p, P_const(chance(50) ? 1 : -1));                   /* near zero */
    else if (c < 35) p = P_add(P_scale(p, 1L << (10 + rnd(30))), P_const(chance(50) ? 1 : -1));
    else if (c < 45) p = P_add(p, P_mul(hp_random_poly(0, 3, 1, 2), chance(50) ? P_var(0, 1) : P_const(1)));
  } else {
    if (T) lp_polynomial_delete(T);
    p = hp_random_poly(0, 3, 2, 3);
  }
  return p;
}

/* small polynomial in x0, x1 used as a coefficient: constants, values' vanishing templates, sums and products */
static lp_polynomial_t* coeff_poly(void) {
  unsigned k = rnd(12);
  switch (k) {
  case 0: return P_const(rnd_in(-3, 3));
  case 1: return P_var(0, 1);
  case 2: return P_var(1, 1);
  case 3: return P_add(P_var(0, 1), P_var(1, 1));
  case 4: return P_mul(P_var(0, 1), P_var(1, 1));
  case 5: return P_sub(P_var(0, 2), P_const(2));
  case 6: return P_sub(P_var(1, 2), P_const(3));
  case 7: return P_sub(P_var(0, 1), P_const(1));
  case 8: return P_const(chance(50) ? 1 : 2);
  case 9: return chance(30) ? P_sub(P_mul(P_var(0, 1), P_var(1, 1)), P_var(2, 1)) : P_const(3);
  case 10: return P_scale(P_var(0, 1), 2);
  default: return P_const(1);
  }
}

/* polynomial with main variable y = x3 as a product of 1-2 factors with coefficients in x0..x2 */
/* degree in the main variable, computed from the monomials (independent of the variable order in force) */
static size_t deg_y_acc;
static void deg_y_cb(const lp_polynomial_context_t* ctx, lp_monomial_t* m, void* data) {
  (void)ctx; (void)data;
  for (size_t i = 0; i < m->n; ++i) if (m->p[i].x == hp_x[3] && m->p[i].d > deg_y_acc) deg_y_acc = m->p[i].d;
}
static size_t deg_in_y(const lp_polynomial_t* p) { deg_y_acc = 0; lp_polynomial_traverse(p, deg_y_cb, 0); return deg_y_acc; }
/* does the main variable occur (asked without relying on the variable order in force) */
static int poly_has_y(const lp_polynomial_t* p) {
  lp_variable_list_t vs; lp_variable_list_construct(&vs);
  lp_polynomial_get_variables(p, &vs);
  int yes = lp_variable_list_index(&vs, hp_x[3]) != -1;
  lp_variable_list_destruct(&vs);
  return yes;
}
static lp_polynomial_t* main_poly(void) {
  /* the same rational root reached through two different square-free factors, one of them linear in y under the assignment and
     one not: (y - x_i)^2 * (y^2 - c^2) or (y - x_i)^2 * (y - c)(y - c - 1) with x_i -> c */
  if (chance(8)) for (int i = 0; i < nvals; ++i) if (lp_value_is_integer(&vals[i])) {
    lp_integer_t z; lp_integer_construct(&z); lp_value_floor(&vals[i], &z); long c = lp_integer_to_int(&z); lp_integer_destruct(&z);
    lp_polynomial_t* lin = P_sub(P_var(3, 1), P_var(i, 1)); lp_polynomial_t* lin2 = lp_polynomial_new_copy(lin);
    lp_polynomial_t* q = chance(50) ? P_sub(P_var(3, 2), P_const(c * c))
                                    : P_mul(P_sub(P_var(3, 1), P_const(c)), P_sub(P_var(3, 1), P_const(c + 1)));
    return P_mul(P_mul(lin, lin2), q);
  }
  /* a high, sparse power of one quadratic irrational coordinate: the elimination runs through a subresultant chain with a
     degree drop of 4 or more (y - x_i^6 - a x_i^e - b, or (y - x_i^5)(y + x_i^6 + c)) */
  if (chance(7)) for (int i = 0; i < nvals; ++i)
    if (vals[i].type == LP_VALUE_ALGEBRAIC && vals[i].value.a.f && lp_upolynomial_degree(vals[i].value.a.f) == 2) {
      lp_polynomial_t* H = P_add(P_var(i, 6), P_add(P_scale(P_var(i, 1 + rnd(2)), rnd_in(-3, 3)), P_const(rnd_in(-4, 4))));
      lp_polynomial_t* q = P_sub(P_var(3, 1), H);
      if (chance(35)) q = P_mul(q, P_sub(P_var(3, 1), P_var(i, 5)));
      return q;
    }
  lp_polynomial_t* p = P_const(1);
  int nf = 1 + rnd(2);
  for (int j = 0; j < nf; ++j) {
    unsigned k = rnd(8);
    if (j > 0) { static const unsigned low[] = { 0, 2, 6, 0 }; k = low[rnd(4)]; }     /* keep the degree in y <= 4 */
    if (k == 7 && nf > 1) k = 1;
    lp_polynomial_t* f;
    if (k == 0) f = P_sub(P_var(3, 1), coeff_poly());                                    /* y - L */
    else if (k == 1) f = P_sub(P_var(3, 2), coeff_poly());                               /* y^2 - L */
    else if (k == 2) f = P_sub(P_mul(coeff_poly(), P_var(3, 1)), coeff_poly());          /* L1*y - L2 */
    else if (k == 3) { lp_polynomial_t* L = coeff_poly(); lp_polynomial_t* L2 = lp_polynomial_new_copy(L);  /* (y - L)^2 */
      lp_polynomial_t* a = P_sub(P_var(3, 1), L); lp_polynomial_t* b = P_sub(P_var(3, 1), L2); f = P_mul(a, b); }
    else if (k == 4) f = P_add(P_add(P_mul(coeff_poly(), P_var(3, 2)), P_mul(coeff_poly(), P_var(3, 1))), coeff_poly());
    else if (k == 5) f = P_add(P_var(3, 2), P_add(P_mul(coeff_poly(), coeff_poly()), P_const(1)));   /* y^2 + L^2 + 1 : often no roots */
    else if (k == 6) f = P_sub(P_var(3, 2), P_const(2));                                 /* rational coefficients, irrational roots */
    else f = P_sub(P_var(3, 3), coeff_poly());
    p = P_mul(p, f);
  }
  if (chance(15)) p = P_mul(p, coeff_poly());          /* content that may vanish */
  if (lp_polynomial_is_constant(p) || !poly_has_y(p)) { lp_polynomial_delete(p); p = P_sub(P_var(3, 2), P_var(0, 1)); }
  return p;
}

static void sb_vinterval(const lp_interval_t* I) {
  if (I->is_point) { sb_str("["); sb_val(&I->a); sb_str("]"); return; }
  sb_str(I->a_open ? "(" : "["); sb_val(&I->a); sb_str("~"); sb_val(&I->b); sb_str(I->b_open ? ")" : "]");
}
static void sb_vset(const lp_feasibility_set_t* s) {
  sb_str("{");
  for (size_t i = 0; i < s->size; ++i) { if (i) sb_str(";"); sb_vinterval(s->intervals + i); }
  sb_str("}");
}

/* all coefficients in y vanish at the conjugate point (sqrt2, -sqrt2) of the assigned (sqrt2, sqrt2): the eliminant of the
 * C code (and of the model) degenerates to 0 although the specialised polynomial has real roots */
static lp_polynomial_t* conj_coeff(void) {
  unsigned k = rnd(5);
  switch (k) {
  case 0: return P_add(P_var(0, 1), P_var(1, 1));
  case 1: return P_add(P_mul(P_var(0, 1), P_var(1, 1)), P_const(2));
  case 2: return P_sub(P_var(0, 2), P_const(2));
  case 3: return P_scale(P_add(P_var(0, 1), P_var(1, 1)), rnd_in(1, 3));
  default: return P_scale(P_add(P_mul(P_var(0, 1), P_var(1, 1)), P_const(2)), -1);
  }
}
static lp_polynomial_t* degenerate_poly(void) {
  int d = 1 + rnd(2);       /* degree 3 already takes the library ~20 s */
  lp_polynomial_t* p = P_mul(chance(70) ? P_add(P_var(0, 1), P_var(1, 1)) : P_add(P_mul(P_var(0, 1), P_var(1, 1)), P_const(2)), P_var(3, d));
  for (int k = 0; k < d; ++k) if (chance(75)) p = P_add(p, P_mul(conj_coeff(), k ? P_var(3, k) : P_const(1)));
  return p;
}

#ifdef LPV_HAVE_CXX_SHIM
size_t lpv_cxx_infeasible(const lp_polynomial_t* p, const lp_assignment_t* m, int sc, lp_interval_t** out);
size_t lpv_cxx_roots(const lp_polynomial_t* p, const lp_assignment_t* m, lp_value_t** out);
#endif

/* lp_feasibility_set_contains on the end points (roots), points between consecutive end points and outer points */
static void probe_membership(const lp_feasibility_set_t* s) {
  lp_value_t pts[40]; int np = 0;
  for (size_t i = 0; i < s->size && np < 30; ++i) {
    const lp_interval_t* I = s->intervals + i;
    if (I->a.type != LP_VALUE_MINUS_INFINITY && I->a.type != LP_VALUE_PLUS_INFINITY) lp_value_construct_copy(&pts[np++], &I->a);
    if (!I->is_point && I->b.type != LP_VALUE_MINUS_INFINITY && I->b.type != LP_VALUE_PLUS_INFINITY) lp_value_construct_copy(&pts[np++], &I->b);
  }
  int ne = np;
  for (int i = 0; i + 1 < ne && np < 38; ++i)
    if (lp_value_cmp(&pts[i], &pts[i + 1]) < 0) { lp_value_construct_none(&pts[np]); lp_value_get_value_between(&pts[i], 1, &pts[i + 1], 1, &pts[np]); ++np; }
  { lp_integer_t z; lp_integer_construct_from_int(lp_Z, &z, -1000); lp_value_construct(&pts[np++], LP_VALUE_INTEGER, &z);
    lp_integer_assign_int(lp_Z, &z, 1000); lp_value_construct(&pts[np++], LP_VALUE_INTEGER, &z); lp_integer_destruct(&z); }
  for (int i = 0; i < np; ++i) {
    sb_begin("ev", "fsmem"); sb_sp(); sb_vset(s); sb_sp(); sb_val(&pts[i]); sb_arrow();
    sb_sp(); sb_long(lp_feasibility_set_contains(s, &pts[i])); sb_emit();
  }
  for (int i = 0; i < np; ++i) lp_value_destruct(&pts[i]);
}

static void main_case(int mode) {
  int kind = 0;
  /* sometimes the polynomial is an external polynomial built under the REVERSED variable order; the order is restored before the
     first library call on it (root isolation / feasible set / root constraint), which has to re-order it by itself */
  int stale = chance(12); char* tokP = 0; lp_polynomial_t* tw = 0;
  if (stale) hp_stale_begin();
#define PP() do { if (tokP) { sb_str(tokP); free(tokP); tokP = 0; } else sb_poly(p); } while (0)
  lp_polynomial_t* T = scenario(&kind);      /* vanishes at the values (or 0) */
  int degenerate = chance(12);
  if (degenerate && T) { lp_polynomial_delete(T); T = 0; }
  if (degenerate) {
    static const long s2[] = { -2, 0, 1 };
    for (int i = 0; i < nvals; ++i) lp_value_destruct(&vals[i]);
    nvals = 3; int sgn = chance(50);
    val_root(&vals[0], 2, s2, sgn); val_root(&vals[1], 2, s2, sgn); val_rat(&vals[2], rnd_in(-3, 3), 1);
  }
  if (kind == 9) { lp_value_destruct(&vals[0]); val_rat(&vals[0], rnd_in(-3, 3), 1 + rnd(2)); }       /* huge coefficients: not for the root / set modes */
  if (kind == 4 && chance(70)) {            /* cubic coordinates make the eliminations expensive: mostly replace by a rational */
    lp_value_destruct(&vals[0]); val_rat(&vals[0], rnd_in(-3, 3), 1 + rnd(2));
  }
  lp_polynomial_t* p = degenerate ? degenerate_poly() : main_poly();
  if ((kind == 4 || kind == 9) && T) { lp_polynomial_delete(T); T = 0; }      /* the coordinate T is about may have been replaced above */
  /* keep the eliminations affordable for the library under the sanitizers: deg_y(p) times the degrees of the assigned algebraic
     numbers bounds the degree of the eliminant; beyond 16 the last irrational coordinates are replaced by rationals */
  int replaced = 0;
  { size_t dy = deg_in_y(p);
    for (int i = nvals - 1; i >= 0; --i) {
      size_t cost = dy;
      for (int j = 0; j < nvals; ++j) if (vals[j].type == LP_VALUE_ALGEBRAIC && vals[j].value.a.f) cost *= lp_upolynomial_degree(vals[j].value.a.f);
      if (cost <= 16) break;
      if (vals[i].type == LP_VALUE_ALGEBRAIC && vals[i].value.a.f) { lp_value_destruct(&vals[i]); val_rat(&vals[i], rnd_in(-3, 3), 1 + rnd(2)); replaced = 1; }
    } }
  if (T && !replaced && kind >= 1 && kind <= 5 && chance(30)) {      /* only the kinds whose T really vanishes at the values */
    /* two (or three) leading coefficients in y that vanish under the assignment: T*y^6 + c*T*y^5 (+ T*y^7) + p
       (they cost the library nothing: it drops them before eliminating) */
    lp_polynomial_t* top = P_add(P_mul(lp_polynomial_new_copy(T), P_var(3, 6)), P_scale(P_mul(lp_polynomial_new_copy(T), P_var(3, 5)), rnd_in(1, 3)));
    if (chance(40)) top = P_add(top, P_mul(lp_polynomial_new_copy(T), P_var(3, 7)));
    p = P_add(p, top);
  }
  if (T) { lp_polynomial_delete(T); T = 0; }
  if (stale) {
    tw = lp_polynomial_new_copy(p); tokP = hp_tok(p);
    lp_polynomial_set_external(p);
    hp_stale_end();
    lp_polynomial_ensure_order(tw);
  }
  const lp_polynomial_t* Q = stale ? tw : p;      /* whom to ask about the shape of p before the first call */
  M = lp_assignment_new(hp_db);
  set_vals();
  lp_polynomial_set_external(p);
  if (mode == 1) {
    size_t d = lp_polynomial_degree(Q), n = 0;
    lp_value_t* roots = (lp_value_t*)malloc((d + 1) * sizeof(lp_value_t));
    sb_begin("ev", "roots"); sb_sp(); PP(); sb_sp(); sb_asg(); sb_arrow();
    lp_polynomial_roots_isolate(p, M, roots, &n);
    sb_sp(); sb_ulong(n);
    for (size_t k = 0; k < n; ++k) { sb_sp(); sb_val(&roots[k]); lp_value_destruct(&roots[k]); }
    sb_emit();
    free(roots);
#ifdef LPV_HAVE_CXX_SHIM
    if (chance(50)) {   /* the C++ helper must return the same roots */
      lp_value_t* xr = 0;
      sb_begin("ev", "roots"); sb_sp(); sb_poly(p); sb_sp(); sb_asg(); sb_arrow();
      size_t xn = lpv_cxx_roots(p, M, &xr);
      sb_sp(); sb_ulong(xn);
      for (size_t k = 0; k < xn; ++k) { sb_sp(); sb_val(&xr[k]); lp_value_destruct(&xr[k]); }
      sb_emit();
      free(xr);
    }
#endif
  } else {
    int cond = rnd(6), neg = chance(40);
    if (chance(70)) {
      sb_begin("ev", "fs"); sb_sp(); PP(); sb_sp(); sb_long(cond); sb_sp(); sb_long(neg); sb_sp(); sb_asg(); sb_arrow();
      lp_feasibility_set_t* s = lp_polynomial_constraint_get_feasible_set(p, (lp_sign_condition_t)cond, neg, M);
      sb_sp(); sb_vset(s); sb_emit();
      if (chance(60)) probe_membership(s);
#ifdef LPV_HAVE_CXX_SHIM
      if (!neg) {       /* poly::infeasible_regions: the complement of the feasible set */
        lp_interval_t* R = 0;
        sb_begin("ev", "infeas"); sb_sp(); sb_long(cond); sb_sp(); sb_vset(s); sb_arrow();
        size_t rn = lpv_cxx_infeasible(p, M, cond, &R);
        sb_sp(); sb_str("{");
        for (size_t i = 0; i < rn; ++i) { if (i) sb_str(";"); sb_vinterval(&R[i]); lp_interval_destruct(&R[i]); }
        sb_str("}"); sb_emit();
        free(R);
      }
#endif
      lp_feasibility_set_delete(s);
    } else if (chance(45)) {
      /* root constraint evaluated with the main variable assigned: at the roots, between them, outside, and at random values;
         every condition and root indices up to one past the degree (not enough roots => false) */
      size_t d = lp_polynomial_degree(Q), n = 0;
      lp_value_t* roots = (lp_value_t*)malloc((d + 1) * sizeof(lp_value_t));
      lp_polynomial_roots_isolate(p, M, roots, &n);
      lp_value_t ys[24]; int ny = 0;
      for (size_t i = 0; i < n && ny < 8; ++i) lp_value_construct_copy(&ys[ny++], &roots[i]);
      for (size_t i = 0; i + 1 < n && ny < 14; ++i) { lp_value_construct_none(&ys[ny]); lp_value_get_value_between(&roots[i], 1, &roots[i + 1], 1, &ys[ny]); ++ny; }
      if (n) { lp_value_t inf; lp_value_construct(&inf, LP_VALUE_MINUS_INFINITY, 0); lp_value_construct_none(&ys[ny]); lp_value_get_value_between(&inf, 1, &roots[0], 1, &ys[ny]); ++ny; lp_value_destruct(&inf);
               lp_value_construct(&inf, LP_VALUE_PLUS_INFINITY, 0); lp_value_construct_none(&ys[ny]); lp_value_get_value_between(&roots[n - 1], 1, &inf, 1, &ys[ny]); ++ny; lp_value_destruct(&inf); }
      val_random(&ys[ny++]); val_rat(&ys[ny++], rnd_in(-4, 4), 1 + rnd(3));
      for (size_t i = 0; i < n; ++i) lp_value_destruct(&roots[i]);
      free(roots);
      for (int i = 0; i < ny; ++i) {
        int reps = 1 + rnd(3);
        for (int r = 0; r < reps; ++r) {
          size_t k = rnd(d + 2); int c = rnd(6);
          sb_begin("ev", "rcons"); sb_sp(); PP(); sb_sp(); sb_ulong(k); sb_sp(); sb_long(c); sb_sp(); sb_asg(); sb_sp(); sb_val(&ys[i]); sb_arrow();
          lp_assignment_set_value(M, hp_x[3], &ys[i]);
          int b = lp_polynomial_root_constraint_evaluate(p, k, (lp_sign_condition_t)c, M);
          sb_sp(); sb_long(b); sb_emit();
          /* the value of the main variable must still be there, unchanged */
          sb_begin("ev", "keep"); sb_sp(); sb_str("3="); sb_val(&ys[i]); sb_arrow(); sb_sp(); sb_str("3="); sb_val(lp_assignment_get_value(M, hp_x[3])); sb_emit();
          lp_assignment_set_value(M, hp_x[3], 0);
        }
      }
      for (int i = 0; i < ny; ++i) lp_value_destruct(&ys[i]);
    } else {
      size_t k = rnd(lp_polynomial_degree(Q) + 2);
      sb_begin("ev", "rfs"); sb_sp(); PP(); sb_sp(); sb_ulong(k); sb_sp(); sb_long(cond); sb_sp(); sb_long(neg); sb_sp(); sb_asg(); sb_arrow();
      lp_feasibility_set_t* s = lp_polynomial_root_constraint_get_feasible_set(p, k, (lp_sign_condition_t)cond, neg, M);
      sb_sp(); sb_vset(s); sb_emit();
      if (chance(40)) probe_membership(s);
      lp_feasibility_set_delete(s);
    }
  }
  lp_polynomial_delete(p); if (tw) lp_polynomial_delete(tw); free(tokP);
#undef PP
  lp_assignment_delete(M);
  for (int i = 0; i < nvals; ++i) lp_value_destruct(&vals[i]);
  nvals = 0;
}

static void with_order(int reversed) { if (reversed) lp_variable_order_reverse(hp_order); }

static void one_case(void) {
  int kind = 0;
  lp_polynomial_t* T = scenario(&kind);
  M = lp_assignment_new(hp_db);
  set_vals();
  lp_polynomial_t* p = build_poly(T, kind);
  lp_polynomial_set_external(p);      /* re-ordered automatically when the variable order changes */
  sb_reset(); sb_asg(); char* asg_before = strdup(sb_buf);
  int reversed = chance(20); if (getenv("LPV_NOREV")) reversed = 0; if (getenv("LPV_SHOWREV")) fprintf(stderr, "reversed=%d\n", reversed);
  unsigned op = rnd(100);
  if (op < 45) {
    sb_begin("ev", "sgn"); sb_sp(); sb_poly(p); sb_sp(); sb_asg(); sb_arrow();
    with_order(reversed); int s = chance(60) ? lp_polynomial_sgn(p, M) : lp_assignment_sgn(M, p); with_order(reversed);
    sb_sp(); sb_long(s); sb_emit();
  } else if (op < 80) {
    sb_begin("ev", "value"); sb_sp(); sb_poly(p); sb_sp(); sb_asg(); sb_arrow();
    with_order(reversed); lp_value_t* v = lp_polynomial_evaluate(p, M); with_order(reversed);
    sb_sp(); sb_val(v); sb_emit();
    lp_value_delete(v);
  } else {
    int cond = rnd(6);
    sb_begin("ev", "cons"); sb_sp(); sb_poly(p); sb_sp(); sb_long(cond); sb_sp(); sb_asg(); sb_arrow();
    int b = lp_polynomial_constraint_evaluate(p, (lp_sign_condition_t)cond, M);
    sb_sp(); sb_long(b); sb_emit();
  }
  /* the query must leave the caller's assignment as it was: the same numbers, well-formed (refinement is allowed) */
  sb_begin("ev", "keep"); sb_sp(); sb_str(asg_before); sb_arrow(); sb_sp(); sb_asg(); sb_emit();
  free(asg_before);
  lp_polynomial_delete(p);
  lp_assignment_delete(M);
  for (int i = 0; i < nvals; ++i) lp_value_destruct(&vals[i]);
  nvals = 0;
}

int main(int argc, char** argv) {
  uint64_t seed = argc > 1 ? strtoull(argv[1], 0, 10) : 1;
  long n = argc > 2 ? atol(argv[2]) : 1000;
  long only = argc > 3 ? atol(argv[3]) : -1;
  long start = argc > 4 ? atol(argv[4]) : 0;
  int mode = 0; { const char* m = getenv("LPV_EVAL_MODE"); if (m && !strcmp(m, "roots")) mode = 1; else if (m && !strcmp(m, "fs")) mode = 2; }
  lpv_init(); hp_init();
  for (long i = 0; i < n; ++i) {
    if ((only >= 0 && i != only) || i < start) continue;
    lpv_begin_case(seed, i);
    if (mode == 0) one_case(); else main_case(mode);
  }
  hp_done();
  free(sb_buf);
  return 0;
}
