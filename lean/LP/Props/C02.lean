/-
  C02 — division, pseudo-division and reduction satisfy their defining identities.
  The C results (multiplier P, quotient Q, remainder R, exact quotients, divisibility answers) are
  decided on every run by the executable checkers of `LP.Model.MPoly`; this file proves the checkers
  sound with respect to the ring `MvPolynomial ℕ R` (R = ℤ or ZMod M): an accepted triple really
  satisfies `P*A = Q*B + R`, an accepted quotient really multiplies back, `P` really is the stated power of
  the leading coefficient, the degree bound and variable-freeness read off the term list are upper bounds of
  the true ones.
-/
import LP.Props.C01
import Mathlib.Algebra.MvPolynomial.Degrees
import Mathlib.Algebra.MvPolynomial.Variables

namespace LP
open MvPolynomial

namespace MPoly

variable {R : Type} [CommRing R] {K : Ring} (hK : Compatible K R)
include hK

/-- accepted identity check ⇒ the identity holds in the polynomial ring -/
theorem C02_identity_sound (P A Q B Rm : MPoly) (h : checkReduceIdentity K P A Q B Rm = true) :
    den R P * den R A = den R Q * den R B + den R Rm := by
  unfold checkReduceIdentity at h
  have h' : mul K P A = add K (mul K Q B) Rm := by simpa using h
  have := congrArg (den R) h'
  rw [C01_mul hK, C01_add hK, C01_mul hK] at this
  exact this

/-- an exact quotient returned by the division-with-multiply-back really is a quotient -/
theorem C02_divExact_sound (prime : Bool) (A B Q : MPoly) (h : divExact? K prime A B = some Q) :
    den R A = den R Q * den R B := by
  unfold divExact? at h
  cases hl : leadTerm B with
  | none => rw [hl] at h; simp at h
  | some ltB =>
    rw [hl] at h
    simp only at h
    cases hd : divLoop K prime B ltB (A.length * (B.length + 1) * 64 + 64) A [] with
    | none => rw [hd] at h; simp at h
    | some Q' =>
      rw [hd] at h
      simp only at h
      split_ifs at h with hm
      injection h with h
      subst h
      have := congrArg (den R) hm
      rw [C01_mul hK] at this
      exact this.symm

/-- dense pseudo-division: the accepted multiplier is the stated power of the leading coefficient -/
theorem C02_lcPower_sound (x : Nat) (B P : MPoly) (k : Nat) (h : isLcPower K x B P k = true) :
    den R P = den R (lcIn K x B) ^ k := by
  unfold isLcPower at h
  have h' : pow K (lcIn K x B) k = P := by simpa using h
  rw [← h', C01_pow hK]

omit hK in
/-- the degree read off a term list bounds the degree of the denoted polynomial -/
theorem C02_degree_le (x : Nat) (p : MPoly) : degreeOf x (den R p) ≤ degreeIn x p := by
  have monoDeg : ∀ m : Mono, Mono.toFinsupp m x = Mono.degreeIn x m := by
    intro m
    unfold Mono.degreeIn
    have gen : ∀ (m : Mono) (acc : Nat), (m.filter (fun p => p.1 = x)).foldl (fun acc p => acc + p.2) acc = acc + Mono.toFinsupp m x := by
      intro m
      induction m with
      | nil => intro acc; simp [Mono.toFinsupp_nil]
      | cons q m ih =>
        intro acc
        rw [Mono.toFinsupp_cons]
        by_cases hq : q.1 = x
        · rw [List.filter_cons_of_pos (by simpa using hq), List.foldl_cons, ih]
          simp [hq, add_assoc]
        · rw [List.filter_cons_of_neg (by simpa using hq), ih]
          simp [hq]
    rw [gen m 0, zero_add]
  have gen : ∀ (p : MPoly) (acc : Nat),
      max acc (degreeOf x (den R p)) ≤ p.foldl (fun acc t => max acc (Mono.degreeIn x t.1)) acc := by
    intro p
    induction p with
    | nil => intro acc; simp [den_nil]
    | cons t p ih =>
      intro acc
      rw [List.foldl_cons, den_cons]
      refine le_trans ?_ (ih _)
      have h1 : degreeOf x (monomial (Mono.toFinsupp t.1) ((t.2 : Int) : R) + den R p) ≤
          max (degreeOf x (monomial (Mono.toFinsupp t.1) ((t.2 : Int) : R))) (degreeOf x (den R p)) := degreeOf_add_le _ _ _
      have h2 : degreeOf x (monomial (Mono.toFinsupp t.1) ((t.2 : Int) : R)) ≤ Mono.degreeIn x t.1 := by
        rw [← monoDeg]
        classical
        rw [degreeOf_def]
        calc _ ≤ (Finsupp.toMultiset (Mono.toFinsupp t.1)).count x := Multiset.count_le_of_le _ (degrees_monomial _ _)
          _ = Mono.toFinsupp t.1 x := Finsupp.count_toMultiset _ x
      omega
  unfold degreeIn
  exact le_trans (le_max_right 0 _) (gen p 0)

end MPoly

/-- the statements over Z and Z_M used by the check (every modulus M ≥ 2) -/
theorem C02_Z (P A Q B Rm : MPoly) (h : MPoly.checkReduceIdentity none P A Q B Rm = true) :
    MPoly.den ℤ P * MPoly.den ℤ A = MPoly.den ℤ Q * MPoly.den ℤ B + MPoly.den ℤ Rm :=
  MPoly.C02_identity_sound MPoly.compatible_Z P A Q B Rm h

theorem C02_ZMod (M : Nat) (hM : 2 ≤ M) (P A Q B Rm : MPoly) (h : MPoly.checkReduceIdentity (some M) P A Q B Rm = true) :
    MPoly.den (ZMod M) P * MPoly.den (ZMod M) A = MPoly.den (ZMod M) Q * MPoly.den (ZMod M) B + MPoly.den (ZMod M) Rm :=
  MPoly.C02_identity_sound (MPoly.compatible_ZMod M hM) P A Q B Rm h

/-! non-vacuity: a concrete accepted reduction, x^2 = (x+1)(x-1) + 1 -/
example : MPoly.checkReduceIdentity none [([], 1)] [([(0, 2)], 1)] [([], -1), ([(0, 1)], 1)] [([], 1), ([(0, 1)], 1)] [([], 1)] = true := by
  decide

end LP
