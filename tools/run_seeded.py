#!/usr/bin/env python3
"""Apply every seeded change under /verif/seeded to /repo (git apply), run the quick check of its property, undo the change
(git checkout), and record whether the check reported a violation.  Usage: run_seeded.py [name-prefix ...]
Never leaves /repo modified; refuses to start on a dirty tree."""
import json, os, subprocess, sys, glob
ROOT = os.path.dirname(os.path.dirname(os.path.abspath(__file__)))
REPO = os.environ.get("LPV_REPO", "/repo")
def sh(*a, **k): return subprocess.run(a, capture_output=True, text=True, **k)
dirty = [l for l in sh("git", "-C", REPO, "status", "--porcelain").stdout.splitlines() if not l.startswith("??")]
if dirty: sys.exit("repo has local changes: " + str(dirty))
names = sorted(os.path.basename(d) for d in glob.glob(os.path.join(ROOT, "seeded", "*")) if os.path.isdir(d))
if len(sys.argv) > 1: names = [n for n in names if any(n.startswith(p) for p in sys.argv[1:])]
res = {}
for n in names:
    d = os.path.join(ROOT, "seeded", n)
    meta = json.load(open(os.path.join(d, "meta.json")))
    prop = meta["property"]
    if sh("git", "-C", REPO, "apply", os.path.join(d, "patch.diff")).returncode != 0:
        res[n] = "patch does not apply"; print(n, res[n], flush=True); continue
    try:
        r = sh(sys.executable, os.path.join(ROOT, "tools", "check.py"), prop, "--seed", os.environ.get("VERIF_SEED", "1"))
    finally:
        sh("git", "-C", REPO, "checkout", "--", ".")
    viol = [l for l in r.stdout.splitlines() if l.startswith("VIOLATION")]
    res[n] = ("DETECTED rc=%d %s" % (r.returncode, viol[0][:110])) if viol and r.returncode == 1 else "MISSED rc=%d" % r.returncode
    print(n, res[n], flush=True)
json.dump(res, open("/tmp/seeded_results.json", "w"), indent=1)
missed = [n for n, v in res.items() if not v.startswith("DETECTED")]
print("missed:", missed)
