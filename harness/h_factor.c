/* C05 harness: factorizations.
 *   fac usqf <ring> u:f => c k (u:fi mi)*           lp_upolynomial_factor_square_free
 *   fac ufull <ring> u:f nb u:b1 e1 .. => c k (u:fi mi)*   lp_upolynomial_factor; over Z the input is the product of the
 *                                                    irreducible blocks b_j^e_j (times a content), listed for the oracle
 *   fac msqf P => k (Pi mi)*                        lp_polynomial_factor_square_free
 *   fac mcf P => k (Pi mi)*                         lp_polynomial_factor_content_free
 */
#define LPV_CASE_TIMEOUT 60
#include "halg.h"

/* irreducible blocks over Z */
static const hfac zblocks[] = {
  {1, {0, 1}}, {1, {-1, 1}}, {1, {1, 1}}, {1, {-2, 1}}, {1, {2, 1}}, {1, {-3, 1}}, {1, {3, 1}}, {1, {-1, 2}}, {1, {1, 3}}, {1, {-5, 7}}, {1, {4, 1}},
  {2, {-2, 0, 1}}, {2, {1, 0, 1}}, {2, {1, 1, 1}}, {2, {-1, -1, 1}}, {2, {-1, 0, 2}}, {2, {3, 0, 1}}, {2, {1, -1, 1}}, {2, {2, 2, 1}}, {2, {-3, 0, 5}},
  {3, {-2, 0, 0, 1}}, {3, {1, -3, 0, 1}}, {3, {-1, -1, 0, 1}}, {3, {1, 1, 0, 2}},
  {4, {1, 0, 0, 0, 1}}, {4, {1, 0, -10, 0, 1}}, {4, {-2, 0, 0, 0, 1}}, {4, {1, 1, 1, 1, 1}}, {4, {1, 0, 1, 0, 1}},
};
#define NZBLOCKS (sizeof zblocks / sizeof zblocks[0])
/* note: x^4+x^2+1 = (x^2+x+1)(x^2-x+1) is NOT irreducible: index 28 is a decoy handled below */
#define DECOY 28

static void emit_factors(const lp_upolynomial_factors_t* fs) {
  sb_sp(); sb_mpz(lp_upolynomial_factors_get_constant(fs)); sb_sp(); sb_ulong(lp_upolynomial_factors_size(fs));
  for (size_t i = 0; i < lp_upolynomial_factors_size(fs); ++i) {
    size_t m = 0; lp_upolynomial_t* f = lp_upolynomial_factors_get_factor((lp_upolynomial_factors_t*)fs, i, &m);
    sb_sp(); sb_upoly(f); sb_sp(); sb_ulong(m);
  }
}

static void z_case(void) {
  /* product of blocks with multiplicities, times a content */
  int idx[6], mult[6], nb = 0; unsigned deg = 0;
  unsigned shape = rnd(100);
  int target = shape < 20 ? 5 : 1 + rnd(3);                    /* many small factors force recombination */
  for (int t = 0; t < 12 && nb < target; ++t) {
    int j = shape < 20 ? (int)rnd(11) : (int)rnd(NZBLOCKS);
    if (j == DECOY) continue;
    int dup = 0; for (int k = 0; k < nb; ++k) if (idx[k] == j) dup = 1;
    if (dup) continue;
    int m = chance(70) ? 1 : 1 + rnd(3);
    if (deg + zblocks[j].deg * m > 10) continue;
    idx[nb] = j; mult[nb] = m; ++nb; deg += zblocks[j].deg * m;
  }
  if (nb == 0) { idx[0] = 11; mult[0] = 1; nb = 1; }
  long content = chance(60) ? 1 : (chance(50) ? -1 : rnd_in(-12, 12)); if (content == 0) content = 6;
  lp_upolynomial_t* f = lp_upolynomial_construct_from_long(lp_Z, 0, &content);
  for (int k = 0; k < nb; ++k) for (int e = 0; e < mult[k]; ++e) f = upoly_times(f, hfac_poly(&zblocks[idx[k]]));
  int full = chance(60);
  if (full) {
    sb_begin("fac", "ufull"); sb_str(" Z "); sb_upoly(f); sb_sp(); sb_long(nb);
    for (int k = 0; k < nb; ++k) { lp_upolynomial_t* b = hfac_poly(&zblocks[idx[k]]); sb_sp(); sb_upoly(b); sb_sp(); sb_long(mult[k]); lp_upolynomial_delete(b); }
    sb_arrow();
    lp_upolynomial_factors_t* fs = lp_upolynomial_factor(f);
    emit_factors(fs); sb_emit();
    lp_upolynomial_factors_destruct(fs, 1);
  } else {
    sb_begin("fac", "usqf"); sb_str(" Z "); sb_upoly(f); sb_arrow();
    lp_upolynomial_factors_t* fs = lp_upolynomial_factor_square_free(f);
    emit_factors(fs); sb_emit();
    lp_upolynomial_factors_destruct(fs, 1);
  }
  lp_upolynomial_delete(f);
}

static void zp_case(void) {
  static const int prime_rings[] = { 1, 2, 3 };               /* hp_moduli: 5, 13, 2 */
  int ri = prime_rings[rnd(3)];
  long p = ri == 1 ? 5 : ri == 2 ? 13 : 2;
  /* product of random monic-ish polynomials with multiplicities incl. multiples of p */
  long one = 1 + (long)rnd((unsigned long)p - 1);
  lp_upolynomial_t* f = lp_upolynomial_construct_from_long(hp_ring[ri], 0, &one);
  unsigned deg = 0; int nf = 1 + rnd(3);
  for (int k = 0; k < nf; ++k) {
    lp_upolynomial_t* g;
    do { g = hp_random_upoly(ri, 1 + rnd(3)); if (lp_upolynomial_degree(g) == 0) { lp_upolynomial_delete(g); g = 0; } } while (!g);
    unsigned m = chance(60) ? 1 : (chance(50) ? (unsigned)p : 2 + rnd(3));
    if (deg + lp_upolynomial_degree(g) * m > (p == 13 ? 6u : 9u)) m = 1;
    if (deg + lp_upolynomial_degree(g) * m > (p == 13 ? 6u : 9u)) { lp_upolynomial_delete(g); continue; }
    deg += lp_upolynomial_degree(g) * m;
    for (unsigned e = 0; e < m; ++e) { lp_upolynomial_t* c = lp_upolynomial_construct_copy(g); f = upoly_times(f, c); }
    lp_upolynomial_delete(g);
  }
  if (lp_upolynomial_degree(f) == 0) { lp_upolynomial_delete(f); long c[3] = { 1, 1, 1 }; f = lp_upolynomial_construct_from_long(hp_ring[ri], 2, c); }
  int full = chance(55);
  sb_begin("fac", full ? "ufull" : "usqf"); sb_sp(); hp_ring_token(ri); sb_sp(); sb_upoly(f);
  if (full) sb_str(" 0");
  sb_arrow();
  lp_upolynomial_factors_t* fs = full ? lp_upolynomial_factor(f) : lp_upolynomial_factor_square_free(f);
  emit_factors(fs); sb_emit();
  lp_upolynomial_factors_destruct(fs, 1);
  lp_upolynomial_delete(f);
}

static void m_case(void) {
  /* product of small polynomials in x0, x1 (x2) with multiplicities, times a content in the lower variables */
  lp_polynomial_t* P = lp_polynomial_new(hp_ctx[0]);
  { lp_integer_t one; lp_integer_construct_from_int(lp_Z, &one, chance(70) ? 1 : rnd_in(2, 6)); lp_polynomial_t* c = lp_polynomial_alloc();
    lp_polynomial_construct_simple(c, hp_ctx[0], &one, hp_x[0], 0); lp_polynomial_assign(P, c); lp_polynomial_delete(c); lp_integer_destruct(&one); }
  int nf = 1 + rnd(3);
  for (int k = 0; k < nf; ++k) {
    lp_polynomial_t* g = hp_random_poly(0, 1 + (int)rnd(3), 2, 3);
    if (lp_polynomial_is_zero(g)) { lp_polynomial_delete(g); continue; }
    unsigned m = chance(60) ? 1 : 2 + rnd(2);
    for (unsigned e = 0; e < m; ++e) lp_polynomial_mul(P, P, g);
    lp_polynomial_delete(g);
  }
  if (lp_polynomial_is_constant(P)) { lp_polynomial_delete(P); P = hp_random_poly(0, 2, 2, 3); }
  if (lp_polynomial_is_zero(P) || lp_polynomial_is_constant(P)) { lp_polynomial_delete(P); return; }
  if (lp_polynomial_degree(P) > 8) { lp_polynomial_delete(P); return; }
  int sqf = chance(65);
  lp_polynomial_t** factors = 0; size_t* mult = 0; size_t n = 0;
  sb_begin("fac", sqf ? "msqf" : "mcf"); sb_sp(); sb_poly(P); sb_arrow();
  if (sqf) lp_polynomial_factor_square_free(P, &factors, &mult, &n); else lp_polynomial_factor_content_free(P, &factors, &mult, &n);
  sb_sp(); sb_ulong(n);
  for (size_t i = 0; i < n; ++i) { sb_sp(); sb_poly(factors[i]); sb_sp(); sb_ulong(mult[i]); lp_polynomial_delete(factors[i]); }
  sb_emit();
  free(factors); free(mult);
  lp_polynomial_delete(P);
}

int main(int argc, char** argv) {
  uint64_t seed = argc > 1 ? strtoull(argv[1], 0, 10) : 1;
  long n = argc > 2 ? atol(argv[2]) : 1000;
  long only = argc > 3 ? atol(argv[3]) : -1;
  long start = argc > 4 ? atol(argv[4]) : 0;
  lpv_init(); hp_init();
  for (long i = 0; i < n; ++i) {
    if ((only >= 0 && i != only) || i < start) continue;
    lpv_begin_case(seed, i);
    unsigned k = rnd(100);
    if (k < 45) z_case(); else if (k < 75) zp_case(); else m_case();
  }
  hp_done();
  free(sb_buf);
  return 0;
}
