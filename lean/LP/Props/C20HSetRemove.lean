/-
  C20 — the backward shift of `lp_polynomial_hash_set_remove` restores the probe-chain invariant (`shiftBack_pc`): the loop
  invariant `SInv` (the hole is empty; the slots scanned since the hole are occupied by elements whose chains avoid the hole;
  every other chain is unbroken except possibly at the hole; an empty slot lies ahead) is kept when the next element moves into
  the hole (`sinv_move`) and when it stays (`sinv_stay`), and at the first empty slot it gives the invariant everywhere
  (`sinv_final`).  The C test `(j + n - home) % n >= (j + n - hole) % n` is read as a comparison of offsets (`dist_eq`).
  Hence `remove` keeps all invariants of the table (`remove_good`).
-/
import LP.Props.C20HSetProbe
import Mathlib.Data.Nat.ModEq
namespace LP
namespace HSet

/-! ### arithmetic of offsets modulo the table size -/

theorem ofs_inj (n a t1 t2 : Nat) (h1 : t1 < n) (h2 : t2 < n) (h : (a + t1) % n = (a + t2) % n) : t1 = t2 := by
  have hm : t1 % n = t2 % n := Nat.ModEq.add_left_cancel' a h
  rwa [Nat.mod_eq_of_lt h1, Nat.mod_eq_of_lt h2] at hm

theorem ofs_ne_self (n a t : Nat) (ha : a < n) (h0 : 0 < t) (ht : t < n) : (a + t) % n ≠ a := by
  intro h
  have : (a + t) % n = (a + 0) % n := by rw [Nat.add_zero, Nat.mod_eq_of_lt ha]; exact h
  have := ofs_inj n a t 0 ht (by omega) this
  omega

/-- the distance computed by the C code: `(j + n - a) % n` is the offset of `j` from `a` -/
theorem dist_eq (n a t : Nat) (ha : a < n) (ht : t < n) : ((a + t) % n + n - a) % n = t := by
  by_cases h : a + t < n
  · rw [Nat.mod_eq_of_lt h]
    have : a + t + n - a = t + n := by omega
    rw [this, Nat.add_mod_right, Nat.mod_eq_of_lt ht]
  · have e : (a + t) % n = a + t - n := by
      rw [Nat.mod_eq_sub_mod (by omega), Nat.mod_eq_of_lt (by omega)]
    rw [e]
    have : a + t - n + n - a = t := by omega
    rw [this, Nat.mod_eq_of_lt ht]

/-- shifting both sides of an offset equation -/
theorem ofs_shift (n a b s t c : Nat) (hc1 : c ≤ s) (hc2 : c ≤ t) (h : (a + s) % n = (b + t) % n) :
    (a + (s - c)) % n = (b + (t - c)) % n := by
  have h' : (a + (s - c) + c) % n = (b + (t - c) + c) % n := by
    have e1 : a + (s - c) + c = a + s := by omega
    have e2 : b + (t - c) + c = b + t := by omega
    rw [e1, e2]; exact h
  exact Nat.ModEq.add_right_cancel' c h'


/-! ### the backward shift keeps the probe-chain invariant -/

/-- state of the loop of the backward shift: the hole, `k` slots scanned after it, `fuel` steps left -/
structure SInv (data : Array (Option Elem)) (hole k fuel : Nat) : Prop where
  hh : hole < data.size
  hk : k < data.size
  i1 : data.getD hole none = none
  i2 : ∀ t, 1 ≤ t → t ≤ k → data.getD ((hole + t) % data.size) none ≠ none
  i3 : ∀ p x, p < data.size → data.getD p none = some x →
        ∃ d, d < data.size ∧ (home data.size x + d) % data.size = p ∧
          ∀ d', d' < d → data.getD ((home data.size x + d') % data.size) none ≠ none ∨
            (home data.size x + d') % data.size = hole
  i4 : ∀ t, 1 ≤ t → t ≤ k → ∀ x, data.getD ((hole + t) % data.size) none = some x →
        ∃ d, d < data.size ∧ (home data.size x + d) % data.size = (hole + t) % data.size ∧
          ∀ d', d' < d → data.getD ((home data.size x + d') % data.size) none ≠ none
  i5 : ∃ m, 1 ≤ m ∧ m ≤ fuel ∧ k + m < data.size ∧ data.getD ((hole + (k + m)) % data.size) none = none

/-- the loop stops at an empty slot: the invariant holds everywhere -/
theorem sinv_final (data : Array (Option Elem)) (hole k fuel : Nat) (inv : SInv data hole k fuel)
    (hj : data.getD ((hole + (k + 1)) % data.size) none = none) : PC data := by
  intro p x hp hx
  obtain ⟨d, hd, hdp, hall⟩ := inv.i3 p x hp hx
  refine ⟨d, hd, hdp, fun d' hd' => ?_⟩
  rcases hall d' hd' with h | h
  · exact h
  · exfalso
    have hn : 0 < data.size := by omega
    -- the slot of x at offset t from the hole
    have hpt : (hole + (d - d')) % data.size = p := by
      rw [← h, Nat.mod_add_mod]
      have : home data.size x + d' + (d - d') = home data.size x + d := by omega
      rw [this]; exact hdp
    rcases Nat.lt_or_ge k (d - d') with hgt | hle
    · rcases Nat.lt_or_ge (k + 1) (d - d') with hgt2 | hle2
      · -- beyond the stopping slot: the chain passes through the stopping slot, which is empty
        have hs : (home data.size x + (d' + (k + 1))) % data.size = (hole + (k + 1)) % data.size := by
          rw [← h, Nat.mod_add_mod, Nat.add_assoc]
        rcases hall (d' + (k + 1)) (by omega) with h2 | h2
        · rw [hs] at h2; exact h2 hj
        · rw [hs] at h2
          exact ofs_ne_self data.size hole (k + 1) inv.hh (by omega) (by omega) h2
      · -- the stopping slot itself
        have : d - d' = k + 1 := by omega
        rw [this] at hpt
        rw [hpt, hx] at hj
        exact absurd hj (by simp)
    · -- a scanned slot: its chain has no empty slot, but the hole is empty
      have hx' : data.getD ((hole + (d - d')) % data.size) none = some x := by rw [hpt]; exact hx
      obtain ⟨d2, hd2, hd2p, hall2⟩ := inv.i4 (d - d') (by omega) hle x hx'
      have : d2 = d := ofs_inj data.size (home data.size x) d2 d hd2 hd (by rw [hd2p, hpt, hdp])
      subst this
      have := hall2 d' hd'
      rw [h, inv.i1] at this
      exact this rfl

/-- the element at the next slot stays: one more slot is scanned -/
theorem sinv_stay (data : Array (Option Elem)) (hole k f : Nat) (inv : SInv data hole k (f + 1)) (x : Elem)
    (hk1 : k + 1 < data.size) (hx : data.getD ((hole + (k + 1)) % data.size) none = some x)
    (d : Nat) (hd : d < data.size) (hdj : (home data.size x + d) % data.size = (hole + (k + 1)) % data.size)
    (hlt : d < k + 1) : SInv data hole (k + 1) f := by
  refine ⟨inv.hh, hk1, inv.i1, ?_, inv.i3, ?_, ?_⟩
  · intro t h1 ht
    rcases Nat.lt_or_ge k t with h | h
    · have : t = k + 1 := by omega
      rw [this, hx]; simp
    · exact inv.i2 t h1 h
  · intro t h1 ht y hy
    rcases Nat.lt_or_ge k t with h | h
    · have e : t = k + 1 := by omega
      subst e
      rw [hx] at hy
      have : y = x := by simpa using hy.symm
      subst this
      refine ⟨d, hd, hdj, fun d' hd' => ?_⟩
      -- the chain of x lies inside the scanned slots
      have hsh := ofs_shift data.size (home data.size y) hole d (k + 1) (d - d') (by omega) (by omega) hdj
      have e1 : d - (d - d') = d' := by omega
      rw [e1] at hsh
      rw [hsh]
      exact inv.i2 (k + 1 - (d - d')) (by omega) (by omega)
    · exact inv.i4 t h1 h y hy
  · obtain ⟨m, hm1, hmf, hmn, hmz⟩ := inv.i5
    have hm2 : m ≠ 1 := by
      intro e; subst e
      rw [hx] at hmz; exact absurd hmz (by simp)
    refine ⟨m - 1, by omega, by omega, by omega, ?_⟩
    have : k + 1 + (m - 1) = k + m := by omega
    rw [this]; exact hmz


/-- the element at the next slot moves into the hole: its old slot is the new hole -/
theorem sinv_move (data : Array (Option Elem)) (hole k f : Nat) (inv : SInv data hole k (f + 1)) (x : Elem)
    (hk1 : k + 1 < data.size) (hx : data.getD ((hole + (k + 1)) % data.size) none = some x)
    (d : Nat) (hd : d < data.size) (hdj : (home data.size x + d) % data.size = (hole + (k + 1)) % data.size)
    (hall : ∀ d', d' < d → data.getD ((home data.size x + d') % data.size) none ≠ none ∨
      (home data.size x + d') % data.size = hole)
    (hge : k + 1 ≤ d) :
    SInv ((data.set! hole (some x)).set! ((hole + (k + 1)) % data.size) none) ((hole + (k + 1)) % data.size) 0 f := by
  have hn : 0 < data.size := by omega
  generalize hjdef : (hole + (k + 1)) % data.size = j at *
  have hjn : j < data.size := by rw [← hjdef]; exact Nat.mod_lt _ hn
  have hjh : j ≠ hole := by rw [← hjdef]; exact ofs_ne_self data.size hole (k + 1) inv.hh (by omega) hk1
  have hsz1 : (data.set! hole (some x)).size = data.size := by simp
  have hsz : ((data.set! hole (some x)).set! j none).size = data.size := by simp
  -- the new array, slot by slot
  have get : ∀ q, ((data.set! hole (some x)).set! j none).getD q none =
      if q = j then none else if q = hole then some x else data.getD q none := by
    intro q
    rw [getD_set!' _ _ _ _ (by rw [hsz1]; exact hjn), getD_set!' _ _ _ _ inv.hh]
  refine ⟨by rw [hsz]; exact hjn, by rw [hsz]; exact hn, by rw [get, if_pos rfl], fun t h1 h0 => by omega, ?_,
    fun t h1 h0 => by omega, ?_⟩
  · -- PC except the new hole
    intro p y hp hy
    rw [hsz] at hp ⊢
    rw [get] at hy
    by_cases e1 : p = j
    · rw [if_pos e1] at hy; exact absurd hy (by simp)
    · rw [if_neg e1] at hy
      by_cases e2 : p = hole
      · -- the moved element
        rw [if_pos e2] at hy
        have : y = x := by simpa using hy.symm
        subst this
        have hsh := ofs_shift data.size (home data.size y) hole d (k + 1) (k + 1) hge (Nat.le_refl _) (by rw [hjdef]; exact hdj)
        have hz : (hole + (k + 1 - (k + 1))) % data.size = hole := by
          rw [Nat.sub_self, Nat.add_zero, Nat.mod_eq_of_lt inv.hh]
        rw [hz] at hsh
        refine ⟨d - (k + 1), by omega, by rw [hsh, e2], fun d' hd' => ?_⟩
        left
        have hne1 : (home data.size y + d') % data.size ≠ hole := by
          intro h
          have := ofs_inj data.size (home data.size y) d' (d - (k + 1)) (by omega) (by omega) (by rw [h, hsh])
          omega
        have hne2 : (home data.size y + d') % data.size ≠ j := by
          intro h
          have := ofs_inj data.size (home data.size y) d' d (by omega) hd (by rw [h, hdj])
          omega
        rw [get, if_neg hne2, if_neg hne1]
        rcases hall d' (by omega) with h | h
        · exact h
        · exact absurd h hne1
      · -- every other element
        rw [if_neg e2] at hy
        obtain ⟨dy, hdy, hdyp, hally⟩ := inv.i3 p y hp hy
        refine ⟨dy, hdy, hdyp, fun d' hd' => ?_⟩
        by_cases e3 : (home data.size y + d') % data.size = j
        · right; exact e3
        · left
          rw [get, if_neg e3]
          by_cases e4 : (home data.size y + d') % data.size = hole
          · rw [if_pos e4]; simp
          · rw [if_neg e4]
            rcases hally d' hd' with h | h
            · exact h
            · exact absurd h e4
  · -- the witness of termination
    obtain ⟨m, hm1, hmf, hmn, hmz⟩ := inv.i5
    have hm2 : m ≠ 1 := by
      intro e; subst e
      rw [hjdef, hx] at hmz; exact absurd hmz (by simp)
    rw [hsz]
    refine ⟨m - 1, by omega, by omega, by omega, ?_⟩
    have hw : (j + (0 + (m - 1))) % data.size = (hole + (k + m)) % data.size := by
      rw [← hjdef, Nat.mod_add_mod]
      congr 1; omega
    rw [hw, get]
    by_cases e1 : (hole + (k + m)) % data.size = j
    · rw [if_pos e1]
    · rw [if_neg e1, if_neg (ofs_ne_self data.size hole (k + m) inv.hh (by omega) hmn)]
      exact hmz

/-- **the backward shift of a removal restores the probe-chain invariant** -/
theorem shiftBack_pc : ∀ (fuel : Nat) (data : Array (Option Elem)) (hole k : Nat), SInv data hole k fuel →
    PC (shiftBack data fuel hole ((hole + k) % data.size)) := by
  intro fuel
  induction fuel with
  | zero =>
    intro data hole k inv
    obtain ⟨m, hm1, hmf, _, _⟩ := inv.i5
    omega
  | succ f ih =>
    intro data hole k inv
    have hn : 0 < data.size := by have := inv.hh; omega
    unfold shiftBack
    dsimp only
    have hj : ((hole + k) % data.size + 1) % data.size = (hole + (k + 1)) % data.size := by
      rw [Nat.mod_add_mod, Nat.add_assoc]
    rw [hj]
    cases hx : data.getD ((hole + (k + 1)) % data.size) none with
    | none => exact sinv_final data hole k (f + 1) inv hx
    | some x =>
      dsimp only
      have hk1 : k + 1 < data.size := by
        by_contra hc
        have hkn : k + 1 = data.size := by have := inv.hk; omega
        rw [hkn, Nat.add_mod_right, Nat.mod_eq_of_lt inv.hh, inv.i1] at hx
        exact absurd hx (by simp)
      have hjn : (hole + (k + 1)) % data.size < data.size := Nat.mod_lt _ hn
      obtain ⟨d, hd, hdj, hall⟩ := inv.i3 _ x hjn hx
      have hhome : home data.size x < data.size := Nat.mod_lt _ hn
      have e1 : ((hole + (k + 1)) % data.size + data.size - home data.size x) % data.size = d := by
        rw [← hdj]; exact dist_eq data.size (home data.size x) d hhome hd
      have e2 : ((hole + (k + 1)) % data.size + data.size - hole) % data.size = k + 1 :=
        dist_eq data.size hole (k + 1) inv.hh hk1
      rw [e1, e2]
      by_cases hge : d ≥ k + 1
      · rw [if_pos hge]
        have inv' := sinv_move data hole k f inv x hk1 hx d hd hdj hall hge
        have := ih _ _ 0 inv'
        have hsz : ((data.set! hole (some x)).set! ((hole + (k + 1)) % data.size) none).size = data.size := by simp
        have e : ((hole + (k + 1)) % data.size + 0) %
            ((data.set! hole (some x)).set! ((hole + (k + 1)) % data.size) none).size = (hole + (k + 1)) % data.size := by
          rw [hsz, Nat.add_zero, Nat.mod_eq_of_lt hjn]
        rw [e] at this
        exact this
      · rw [if_neg hge]
        exact ih data hole (k + 1) (sinv_stay data hole k f inv x hk1 hx d hd hdj (by omega))


/-- the state right after clearing slot `i` satisfies the loop invariant -/
theorem sinv_init (s : HSet) (hg : Good s) (i : Nat) (x : Elem) (hi : i < s.data.size)
    (hx : s.data.getD i none = some x) : SInv (s.data.set! i none) i 0 s.data.size := by
  have hn : 0 < s.data.size := by omega
  have hsz : (s.data.set! i none).size = s.data.size := by simp
  have get : ∀ q, (s.data.set! i none).getD q none = if q = i then none else s.data.getD q none :=
    fun q => getD_set!' _ _ _ _ hi
  refine ⟨by rw [hsz]; exact hi, by rw [hsz]; exact hn, by rw [get, if_pos rfl], fun t h1 h0 => by omega, ?_,
    fun t h1 h0 => by omega, ?_⟩
  · intro p y hp hy
    rw [hsz] at hp ⊢
    rw [get] at hy
    by_cases e1 : p = i
    · rw [if_pos e1] at hy; exact absurd hy (by simp)
    · rw [if_neg e1] at hy
      obtain ⟨d, hd, hdp, hall⟩ := hg.pc p y hp hy
      refine ⟨d, hd, hdp, fun d' hd' => ?_⟩
      by_cases e2 : (home s.data.size y + d') % s.data.size = i
      · right; exact e2
      · left; rw [get, if_neg e2]; exact hall d' hd'
  · -- another empty slot: the table is never full
    have hfree : (slots s.data).length < s.data.size := by
      have h1 := hg.cnt; have h2 := hg.le; have h3 := hg.thr; have h4 := hg.pos
      unfold thresholdOf at h3
      omega
    obtain ⟨k', hk', hkn⟩ := exists_none s.data hfree
    have hne : k' ≠ i := by
      intro e; rw [e, hx] at hkn; exact absurd hkn (by simp)
    obtain ⟨m, hm, hmk⟩ := exists_offset s.data.size i k' hi hk'
    have hm0 : m ≠ 0 := by
      intro e; subst e
      rw [Nat.add_zero, Nat.mod_eq_of_lt hi] at hmk
      exact hne hmk.symm
    rw [hsz]
    refine ⟨m, by omega, by omega, by omega, ?_⟩
    rw [Nat.zero_add, hmk, get, if_neg hne]; exact hkn

/-- **remove keeps the invariants** -/
theorem remove_good (s : HSet) (e : Elem) (hg : Good s) : Good (remove s e).1 := by
  have hs : 0 < s.data.size := by have := hg.pos; omega
  cases hr : (remove s e).2 with
  | false => rw [C20_hset_remove_missing s e hr]; exact hg
  | true =>
    obtain ⟨x, hxk, hperm⟩ := C20_hset_remove_perm s e hs hr
    rw [closeList_eq, closeList_eq] at hperm
    have hlen : (slots (remove s e).1.data).length + 1 = (slots s.data).length := by
      rw [← hperm.length_eq]; simp
    have h1 := hg.cnt; have h2 := hg.le; have h3 := hg.thr; have h4 := hg.pos
    unfold remove at hr hlen ⊢
    cases hp : probe s.data e.key s.data.size (home s.data.size e) with
    | none => rw [hp] at hr; simp at hr
    | some r =>
      obtain ⟨i, found⟩ := r
      rw [hp] at hr hlen
      cases found with
      | false => simp at hr
      | true =>
        dsimp only at hlen ⊢
        have hi := probe_lt s.data e.key _ _ i true (Nat.mod_lt _ hs) hp
        obtain ⟨y, hy, _⟩ := (probe_spec s.data e.key _ _ i true hp).1 rfl
        have hsz : (removeAt s.data i).size = s.data.size := by
          unfold removeAt; rw [shiftBack_size]; simp
        have hpc : PC (removeAt s.data i) := by
          unfold removeAt
          have inv := sinv_init s hg i y hi hy
          have := shiftBack_pc s.data.size (s.data.set! i none) i 0 inv
          have hsz0 : (s.data.set! i none).size = s.data.size := by simp
          rw [Nat.add_zero, hsz0, Nat.mod_eq_of_lt hi] at this
          exact this
        refine ⟨?_, hpc, ?_, ?_, ?_⟩
        · show 64 ≤ (removeAt s.data i).size
          rw [hsz]; exact h4
        · show s.size - 1 = (slots (removeAt s.data i)).length
          omega
        · show s.size - 1 ≤ s.threshold
          omega
        · show s.threshold = thresholdOf (removeAt s.data i).size
          rw [hsz]; exact h3

end HSet
end LP
