import LP.Props.C03
import LP.Model.Factor
namespace LP
theorem C05_placeholder : True := trivial
end LP
