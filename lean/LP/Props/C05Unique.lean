/-
  C05 — the use of unique factorization by the validator, formalised: in ℤ[X] two families of irreducible polynomials whose
  products agree up to a unit are the same family up to units and order (`C05_factorization_unique`, Mathlib's
  `UniqueFactorizationMonoid.factors_unique` at ℤ[X]).  So once the product check (`C05_product_sound`) and the
  irreducibility of the blocks and of the returned factors are established, the returned factors are the blocks.
-/
import Mathlib.RingTheory.Polynomial.UniqueFactorization
import Mathlib.RingTheory.UniqueFactorizationDomain.Basic
import Mathlib.RingTheory.Int.Basic

namespace LP
open Polynomial

/-- **unique factorization in ℤ[X]**: two families of irreducible polynomials with the same product (up to a unit) are the
    same family up to units and order — what the comparison of the library's factors with the irreducible blocks uses -/
theorem C05_factorization_unique (fs gs : Multiset ℤ[X]) (hf : ∀ x ∈ fs, Irreducible x) (hg : ∀ x ∈ gs, Irreducible x)
    (h : Associated fs.prod gs.prod) : Multiset.Rel Associated fs gs :=
  UniqueFactorizationMonoid.factors_unique hf hg h

end LP
