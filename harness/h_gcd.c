/* C03 harness: gcd, lcm, content, primitive part, extended gcd, Bezout.
 * Instances are products  p = g0*a, q = g0*b  (numeric, monomial and polynomial common factors in any subset
 * of the variables), plus zero / constant / equal / coprime operands.  Every gcd is computed three times:
 * default strategy, heuristic discarded, univariate shortcut disabled (LIBPOLY_VERIF hooks).
 *   gcd gcd <ring> <flags> P Q G0 => G        G0 = the constructed common factor (a known common divisor)
 *   gcd lcm|cont|pp|ppcont ...
 *   ugcd gcd|xgcd|bezout <ring> ...
 */
#include "hpoly.h"
#ifdef LIBPOLY_VERIF
extern int lp_verif_flags;
#else
static int lp_verif_flags;
#endif

static long topvar(const lp_polynomial_t* p) { return lp_polynomial_is_constant(p) ? -1 : (long)lp_polynomial_top_variable(p); }

static lp_polynomial_t* common_factor(int nv) {
  unsigned k = rnd(100);
  if (k < 15) return hp_dest(0, 1);                                  /* numeric */
  if (k < 30) { unsigned e[NVARS] = { 0 }; for (int i = 0; i < nv; ++i) e[i] = rnd(3);    /* monomial */
    lp_integer_t c; lp_integer_construct_from_int(lp_Z, &c, 1 + rnd(3)); lp_polynomial_t* m = hp_monomial(0, &c, e); lp_integer_destruct(&c); return m; }
  if (k < 40) { lp_polynomial_t* o = hp_dest(0, 1); lp_integer_t c; lp_integer_construct_from_int(lp_Z, &c, 1); lp_polynomial_t* t = lp_polynomial_alloc();
    lp_polynomial_construct_simple(t, hp_ctx[0], &c, hp_x[0], 0); lp_polynomial_assign(o, t); lp_polynomial_delete(t); lp_integer_destruct(&c); return o; }   /* 1 */
  return hp_random_poly(0, nv, 2, 3);
}

static void mgcd_case(void) {
  int nv = 1 + (int)rnd(3);
  lp_polynomial_t* g0 = common_factor(nv);
  if (lp_polynomial_is_zero(g0)) { lp_polynomial_delete(g0); g0 = hp_dest(0, 1); }
  lp_polynomial_t* a = hp_random_poly(0, nv, 2, 3);
  lp_polynomial_t* b = hp_random_poly(0, nv, 2, 3);
  unsigned shape = rnd(100);
  if (shape < 6) { lp_polynomial_t* z = lp_polynomial_new(hp_ctx[0]); lp_polynomial_assign(b, z); lp_polynomial_delete(z); }       /* q = 0 */
  else if (shape < 9) { lp_polynomial_t* z = lp_polynomial_new(hp_ctx[0]); lp_polynomial_assign(a, z); lp_polynomial_assign(b, z); lp_polynomial_delete(z); }
  else if (shape < 15) lp_polynomial_assign(b, a);                                                                                 /* equal */
  lp_polynomial_t* P = lp_polynomial_new(hp_ctx[0]); lp_polynomial_t* Q = lp_polynomial_new(hp_ctx[0]);
  lp_polynomial_mul(P, g0, a); lp_polynomial_mul(Q, g0, b);
  if (shape >= 15 && shape < 30 && nv >= 2) {
    /* projection trap: P univariate in the top variable, Q = u*b + x0*r shares the factor u with P only after x0 := 0 */
    lp_integer_t one; lp_integer_construct_from_int(lp_Z, &one, 1);
    lp_polynomial_t* u = lp_polynomial_alloc(); lp_polynomial_construct_simple(u, hp_ctx[0], &one, hp_x[nv - 1], 1 + rnd(2));
    { lp_integer_t c; lp_integer_construct_from_int(lp_Z, &c, rnd_in(-3, 3)); lp_polynomial_t* k = lp_polynomial_alloc();
      lp_polynomial_construct_simple(k, hp_ctx[0], &c, hp_x[nv - 1], 0); lp_polynomial_add(u, u, k); lp_polynomial_delete(k); lp_integer_destruct(&c); }
    lp_polynomial_t* ua = lp_polynomial_alloc(); lp_polynomial_construct_simple(ua, hp_ctx[0], &one, hp_x[nv - 1], 1);
    { lp_integer_t c; lp_integer_construct_from_int(lp_Z, &c, rnd_in(-4, 4)); lp_polynomial_t* k = lp_polynomial_alloc();
      lp_polynomial_construct_simple(k, hp_ctx[0], &c, hp_x[nv - 1], 0); lp_polynomial_add(ua, ua, k); lp_polynomial_delete(k); lp_integer_destruct(&c); }
    lp_polynomial_t* y = lp_polynomial_alloc(); lp_polynomial_construct_simple(y, hp_ctx[0], &one, hp_x[0], 1);
    lp_polynomial_t* r = hp_random_poly(0, nv, 1, 2);
    if (lp_polynomial_is_zero(r)) lp_polynomial_assign(r, y);
    lp_polynomial_mul(P, u, ua);                                 /* P = u * (x + c) : univariate */
    lp_polynomial_mul(Q, u, b); lp_polynomial_mul(r, r, y); lp_polynomial_add(Q, Q, r);   /* Q = u*b + x0*r */
    lp_polynomial_delete(g0); g0 = hp_dest(0, 1);
    { lp_polynomial_t* t = lp_polynomial_alloc(); lp_polynomial_construct_simple(t, hp_ctx[0], &one, hp_x[0], 0); lp_polynomial_assign(g0, t); lp_polynomial_delete(t); }
    if (chance(50)) lp_polynomial_swap(P, Q);
    lp_polynomial_delete(u); lp_polynomial_delete(ua); lp_polynomial_delete(y); lp_polynomial_delete(r); lp_integer_destruct(&one);
  }
  unsigned op = rnd(10);
  if (op < 6) {
    for (int flags = 0; flags <= 2; ++flags) {
      lp_polynomial_t* G = lp_polynomial_new(hp_ctx[0]);
      sb_begin("gcd", "gcd"); sb_sp(); hp_ring_token(0); sb_sp(); sb_long(flags); sb_sp(); sb_poly(P); sb_sp(); sb_poly(Q); sb_sp(); sb_poly(g0); sb_arrow();
      lp_verif_flags = flags == 0 ? 0 : flags == 1 ? 1 : 3;
      { unsigned al = rnd(6);      /* output aliased with an input (on a copy), or a pre-used object */
        if (al == 0) { lp_polynomial_t* Pc = lp_polynomial_new_copy(P); lp_polynomial_gcd(Pc, Pc, Q); lp_polynomial_assign(G, Pc); lp_polynomial_delete(Pc); }
        else if (al == 1) { lp_polynomial_t* Qc = lp_polynomial_new_copy(Q); lp_polynomial_gcd(Qc, P, Qc); lp_polynomial_assign(G, Qc); lp_polynomial_delete(Qc); }
        else if (al == 2) { lp_polynomial_t* O = hp_dest(0, 2); lp_polynomial_gcd(O, P, Q); lp_polynomial_assign(G, O); lp_polynomial_delete(O); }
        else lp_polynomial_gcd(G, P, Q); }
      lp_verif_flags = 0;
      sb_sp(); sb_poly(G); sb_emit();
      lp_polynomial_delete(G);
    }
  } else if (op < 7) {
    if (lp_polynomial_is_zero(P) || lp_polynomial_is_zero(Q)) goto done;
    lp_polynomial_t* L = lp_polynomial_new(hp_ctx[0]);
    sb_begin("gcd", "lcm"); sb_sp(); hp_ring_token(0); sb_sp(); sb_long(0); sb_sp(); sb_poly(P); sb_sp(); sb_poly(Q); sb_arrow();
    if (chance(25)) { lp_polynomial_t* Pc = lp_polynomial_new_copy(P); lp_polynomial_lcm(Pc, Pc, Q); lp_polynomial_assign(L, Pc); lp_polynomial_delete(Pc); }
    else if (chance(25)) { lp_polynomial_t* Qc = lp_polynomial_new_copy(Q); lp_polynomial_lcm(Qc, P, Qc); lp_polynomial_assign(L, Qc); lp_polynomial_delete(Qc); }
    else lp_polynomial_lcm(L, P, Q);
    sb_sp(); sb_poly(L); sb_emit();
    lp_polynomial_delete(L);
  } else {
    if (lp_polynomial_is_zero(P)) goto done;
    lp_polynomial_t* C = lp_polynomial_new(hp_ctx[0]); lp_polynomial_t* PP = lp_polynomial_new(hp_ctx[0]);
    sb_begin("gcd", "ppcont"); sb_sp(); hp_ring_token(0); sb_sp(); sb_long(topvar(P)); sb_sp(); sb_poly(P); sb_arrow();
    if (chance(25)) { lp_polynomial_t* Pc = lp_polynomial_new_copy(P); lp_polynomial_pp_cont(Pc, C, Pc); lp_polynomial_assign(PP, Pc); lp_polynomial_delete(Pc); }
    else if (chance(25)) { lp_polynomial_t* Pc = lp_polynomial_new_copy(P); lp_polynomial_pp_cont(PP, Pc, Pc); lp_polynomial_assign(C, Pc); lp_polynomial_delete(Pc); }
    else lp_polynomial_pp_cont(PP, C, P);
    sb_sp(); sb_poly(PP); sb_sp(); sb_poly(C); sb_emit();
    sb_begin("gcd", "ppcont"); sb_sp(); hp_ring_token(0); sb_sp(); sb_long(topvar(P)); sb_sp(); sb_poly(P); sb_arrow();
    lp_polynomial_pp(PP, P); lp_polynomial_cont(C, P); sb_sp(); sb_poly(PP); sb_sp(); sb_poly(C); sb_emit();
    lp_polynomial_delete(C); lp_polynomial_delete(PP);
  }
done:
  lp_polynomial_delete(g0); lp_polynomial_delete(a); lp_polynomial_delete(b); lp_polynomial_delete(P); lp_polynomial_delete(Q);
}

static void ugcd_case(void) {
  int ri = chance(50) ? 0 : (chance(50) ? 1 : 2);
  lp_upolynomial_t* g0 = hp_random_upoly(ri, 3);
  if (lp_upolynomial_is_zero(g0) || chance(20)) { lp_upolynomial_delete(g0); g0 = lp_upolynomial_construct_power(hp_ring[ri], 0, 1 + (ri == 0 ? rnd(4) : 0)); }
  lp_upolynomial_t* a = hp_random_upoly(ri, 4); lp_upolynomial_t* b = hp_random_upoly(ri, 4);
  unsigned shape = rnd(100);
  if (shape < 6) { lp_upolynomial_delete(b); b = lp_upolynomial_construct_power(hp_ring[ri], 0, 0); }
  else if (shape < 12) { lp_upolynomial_delete(b); b = lp_upolynomial_construct_copy(a); }
  lp_upolynomial_t* P = lp_upolynomial_mul(g0, a); lp_upolynomial_t* Q = lp_upolynomial_mul(g0, b);
  unsigned op = rnd(10);
  if (op < 6 || ri == 0) {
    for (int flags = 0; flags <= (ri == 0 ? 1 : 0); ++flags) {
      sb_begin("ugcd", "gcd"); sb_sp(); hp_ring_token(ri); sb_sp(); sb_long(flags); sb_sp(); sb_upoly(P); sb_sp(); sb_upoly(Q); sb_sp(); sb_upoly(g0); sb_arrow();
      lp_verif_flags = flags;
      lp_upolynomial_t* G = lp_upolynomial_gcd(P, Q);
      lp_verif_flags = 0;
      sb_sp(); sb_upoly(G); sb_emit();
      lp_upolynomial_delete(G);
    }
    if (ri == 0 && !lp_upolynomial_is_zero(P)) {
      lp_integer_t c; lp_integer_construct(&c);
      sb_begin("ugcd", "ppcont"); sb_sp(); hp_ring_token(ri); sb_sp(); sb_upoly(P); sb_arrow();
      lp_upolynomial_content_Z(P, &c); lp_upolynomial_t* pp; if (chance(50)) pp = lp_upolynomial_primitive_part_Z(P); else { pp = lp_upolynomial_construct_copy(P); lp_upolynomial_make_primitive_Z(pp); }
      sb_sp(); sb_upoly(pp); sb_sp(); sb_mpz(&c); sb_sp(); sb_long(lp_upolynomial_is_primitive(pp)); sb_emit();
      lp_upolynomial_delete(pp); lp_integer_destruct(&c);
    }
  } else if (op < 8) { /* extended gcd over a prime field */
    if (lp_upolynomial_is_zero(P) || lp_upolynomial_is_zero(Q)) goto done;
    lp_upolynomial_t* u = 0; lp_upolynomial_t* v = 0;
    sb_begin("ugcd", "xgcd"); sb_sp(); hp_ring_token(ri); sb_sp(); sb_upoly(P); sb_sp(); sb_upoly(Q); sb_arrow();
    lp_upolynomial_t* G = lp_upolynomial_extended_gcd(P, Q, &u, &v);
    sb_sp(); sb_upoly(G); sb_sp(); sb_upoly(u); sb_sp(); sb_upoly(v); sb_emit();
    lp_upolynomial_delete(G); lp_upolynomial_delete(u); lp_upolynomial_delete(v);
  } else { /* Bezout: u*P + v*Q = r with r a multiple of the gcd */
    if (lp_upolynomial_is_zero(P) || lp_upolynomial_is_zero(Q)) goto done;
    lp_upolynomial_t* G = lp_upolynomial_gcd(P, Q);
    lp_upolynomial_t* m = hp_random_upoly(ri, 2);
    lp_upolynomial_t* r = lp_upolynomial_mul(G, m);
    /* a solution within the documented degree bounds exists only if deg r < deg P + deg Q - deg G */
    if (lp_upolynomial_degree(r) + lp_upolynomial_degree(G) >= lp_upolynomial_degree(P) + lp_upolynomial_degree(Q) || lp_upolynomial_degree(P) == 0 || lp_upolynomial_degree(Q) == 0) {
      lp_upolynomial_delete(G); lp_upolynomial_delete(m); lp_upolynomial_delete(r); goto done; }
    lp_upolynomial_t* u = 0; lp_upolynomial_t* v = 0;
    sb_begin("ugcd", "bezout"); sb_sp(); hp_ring_token(ri); sb_sp(); sb_upoly(P); sb_sp(); sb_upoly(Q); sb_sp(); sb_upoly(r); sb_arrow();
    lp_upolynomial_solve_bezout(P, Q, r, &u, &v);
    sb_sp(); sb_upoly(u); sb_sp(); sb_upoly(v); sb_emit();
    lp_upolynomial_delete(G); lp_upolynomial_delete(m); lp_upolynomial_delete(r); lp_upolynomial_delete(u); lp_upolynomial_delete(v);
  }
done:
  lp_upolynomial_delete(g0); lp_upolynomial_delete(a); lp_upolynomial_delete(b); lp_upolynomial_delete(P); lp_upolynomial_delete(Q);
}

int main(int argc, char** argv) {
  uint64_t seed = argc > 1 ? strtoull(argv[1], 0, 10) : 1;
  long n = argc > 2 ? atol(argv[2]) : 1000;
  long only = argc > 3 ? atol(argv[3]) : -1;
  long start = argc > 4 ? atol(argv[4]) : 0;
  lpv_init(); hp_init();
  for (long i = 0; i < n; ++i) {
    if ((only >= 0 && i != only) || i < start) continue;
    lpv_begin_case(seed, i);
    if (chance(55)) mgcd_case(); else ugcd_case();
  }
  hp_done();
  free(sb_buf);
  return 0;
}
