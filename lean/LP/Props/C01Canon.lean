/-
  C01 — canonical term lists are a normal form: two canonical lists (sorted by the monomial order, canonical monomials,
  non-zero coefficients in the range of the ring) that denote the same polynomial are equal (`C01_canonical_unique`, over ℤ
  and over every Z_M).  So comparing the library's canonical output with the model's canonical output as lists is the
  comparison of the denoted ring elements.  The model's monomial order is the lexicographic order on words of
  lexicographically ordered (variable, exponent) pairs (`lt_iff_toL`), hence a strict total order; canonical monomials are
  determined by their exponent vectors (`canon_injective`).
-/
import LP.Props.C01
import Mathlib.Data.List.Lex
import Mathlib.Data.Prod.Lex

namespace LP
namespace Mono

/-- a monomial as a word over the lexicographically ordered pairs -/
def toL (m : Mono) : List (ℕ ×ₗ ℕ) := m.map toLex

theorem toL_injective : Function.Injective toL := by
  intro a b h
  unfold toL at h
  exact List.map_injective_iff.2 (fun x y hxy => by simpa using hxy) h

/-- the model's monomial order is the lexicographic order on words of lexicographically ordered pairs -/
theorem lt_iff_toL : ∀ (a b : Mono), lt a b = true ↔ toL a < toL b := by
  intro a
  induction a with
  | nil =>
    intro b
    cases b with
    | nil => simp [lt, toL]
    | cons q s => simp [lt, toL]
  | cons p r ih =>
    intro b
    cases b with
    | nil => simp [lt, toL]
    | cons q s =>
      obtain ⟨x, e⟩ := p
      obtain ⟨y, f⟩ := q
      unfold lt
      simp only [toL, List.map_cons]
      rw [List.cons_lt_cons_iff]
      have hpq : (toLex (x, e) : ℕ ×ₗ ℕ) < toLex (y, f) ↔ x < y ∨ (x = y ∧ e < f) := Prod.Lex.toLex_lt_toLex
      have heq : (toLex (x, e) : ℕ ×ₗ ℕ) = toLex (y, f) ↔ x = y ∧ e = f := by simp
      rw [hpq, heq]
      have := ih s
      unfold toL at this
      rw [← this]
      by_cases h1 : x < y
      · simp [h1]
      · by_cases h2 : y < x
        · simp [h1, h2]; omega
        · have hxy : x = y := by omega
          subst hxy
          by_cases h3 : e < f
          · simp [h3]
          · by_cases h4 : f < e
            · simp [h3, h4]; omega
            · have : e = f := by omega
              subst this; simp


theorem lt_trans' (a b c : Mono) (h1 : lt a b = true) (h2 : lt b c = true) : lt a c = true :=
  (lt_iff_toL a c).2 (_root_.lt_trans ((lt_iff_toL a b).1 h1) ((lt_iff_toL b c).1 h2))

theorem lt_irrefl' (a : Mono) : lt a a ≠ true := fun h => _root_.lt_irrefl _ ((lt_iff_toL a a).1 h)

/-- in a canonical monomial the variables after the head are larger than the head -/
theorem canon_head_lt : ∀ (r : Mono) (x e : Nat), MPoly.monoCanon ((x, e) :: r) = true → ∀ p ∈ r, x < p.1 := by
  intro r
  induction r with
  | nil => intro x e _ p hp; simp at hp
  | cons q r ih =>
    intro x e h p hp
    simp only [MPoly.monoCanon, Bool.and_eq_true, decide_eq_true_eq] at h
    rcases List.mem_cons.1 hp with rfl | hp'
    · exact h.1.2
    · exact _root_.lt_trans h.1.2 (ih q.1 q.2 h.2 p hp')

theorem canon_tail : ∀ (r : Mono) (p : Nat × Nat), MPoly.monoCanon (p :: r) = true → MPoly.monoCanon r = true ∧ 0 < p.2 := by
  intro r p h
  cases r with
  | nil => simp only [MPoly.monoCanon, decide_eq_true_eq] at h; exact ⟨rfl, h⟩
  | cons q r =>
    simp only [MPoly.monoCanon, Bool.and_eq_true, decide_eq_true_eq] at h
    exact ⟨h.2, h.1.1⟩

theorem toFinsupp_zero_of_lt (r : Mono) (y : Nat) (h : ∀ p ∈ r, y < p.1) : toFinsupp r y = 0 := by
  induction r with
  | nil => simp [toFinsupp_nil]
  | cons p r ih =>
    rw [toFinsupp_cons, Finsupp.add_apply, ih (fun q hq => h q (List.mem_cons_of_mem _ hq))]
    have : p.1 ≠ y := by have := h p (by simp); omega
    simp [this]

/-- **canonical monomials are determined by their exponent vectors** -/
theorem canon_injective : ∀ (a b : Mono), MPoly.monoCanon a = true → MPoly.monoCanon b = true →
    toFinsupp a = toFinsupp b → a = b := by
  intro a
  induction a with
  | nil =>
    intro b _ hb h
    cases b with
    | nil => rfl
    | cons q s =>
      exfalso
      have h0 := toFinsupp_zero_of_lt s q.1 (canon_head_lt s q.1 q.2 hb)
      have := congrArg (fun f => f q.1) h
      simp only [toFinsupp_nil, Finsupp.coe_zero, Pi.zero_apply, toFinsupp_cons, Finsupp.add_apply,
        Finsupp.single_eq_same, h0] at this
      have := (canon_tail s q hb).2
      omega
  | cons p r ih =>
    intro b ha hb h
    cases b with
    | nil =>
      exfalso
      have h0 := toFinsupp_zero_of_lt r p.1 (canon_head_lt r p.1 p.2 ha)
      have := congrArg (fun f => f p.1) h
      simp only [toFinsupp_nil, Finsupp.coe_zero, Pi.zero_apply, toFinsupp_cons, Finsupp.add_apply,
        Finsupp.single_eq_same, h0] at this
      have := (canon_tail r p ha).2
      omega
    | cons q s =>
      obtain ⟨x, e⟩ := p
      obtain ⟨y, f⟩ := q
      have hr := canon_head_lt r x e ha
      have hs := canon_head_lt s y f hb
      have hx0 := toFinsupp_zero_of_lt r x hr
      have hy0 := toFinsupp_zero_of_lt s y hs
      have hex := (canon_tail r (x, e) ha).2
      have hfy := (canon_tail s (y, f) hb).2
      have atx := congrArg (fun g => g x) h
      have aty := congrArg (fun g => g y) h
      simp only [toFinsupp_cons, Finsupp.add_apply, Finsupp.single_eq_same, hx0] at atx
      simp only [toFinsupp_cons, Finsupp.add_apply, Finsupp.single_eq_same, hy0] at aty
      have hxy : x = y := by
        rcases Nat.lt_trichotomy x y with hlt | heq | hgt
        · exfalso
          have : toFinsupp s x = 0 := toFinsupp_zero_of_lt s x (fun p hp => _root_.lt_trans hlt (hs p hp))
          rw [this, Finsupp.single_apply, if_neg (by omega)] at atx
          simp at atx; omega
        · exact heq
        · exfalso
          have : toFinsupp r y = 0 := toFinsupp_zero_of_lt r y (fun p hp => _root_.lt_trans hgt (hr p hp))
          rw [this, Finsupp.single_apply, if_neg (by omega)] at aty
          simp at aty; omega
      subst hxy
      have hef : e = f := by simpa [hy0] using atx
      subst hef
      have hrs : toFinsupp r = toFinsupp s := by
        rw [toFinsupp_cons, toFinsupp_cons] at h
        exact add_left_cancel h
      rw [ih s (canon_tail r _ ha).1 (canon_tail s _ hb).1 hrs]

end Mono

namespace MPoly
open MvPolynomial

theorem sortedLt_pairwise : ∀ (p : MPoly), sortedLt p = true → p.Pairwise (fun t u => Mono.lt t.1 u.1 = true) := by
  intro p
  induction p with
  | nil => intro _; exact List.Pairwise.nil
  | cons a p ih =>
    intro h
    cases p with
    | nil => exact List.pairwise_singleton _ _
    | cons b r =>
      simp only [sortedLt, Bool.and_eq_true] at h
      have hp := ih h.2
      refine List.pairwise_cons.2 ⟨fun c hc => ?_, hp⟩
      rcases List.mem_cons.1 hc with rfl | hc'
      · exact h.1
      · exact Mono.lt_trans' _ _ _ h.1 ((List.pairwise_cons.1 hp).1 c hc')

variable {R : Type} [CommRing R]

theorem coeff_den_zero (s : ℕ →₀ ℕ) (p : MPoly) (h : ∀ t ∈ p, Mono.toFinsupp t.1 ≠ s) : coeff s (den R p) = 0 := by
  induction p with
  | nil => simp [den_nil]
  | cons t p ih =>
    rw [den_cons, coeff_add, coeff_monomial, if_neg (h t (by simp)), zero_add]
    exact ih (fun u hu => h u (List.mem_cons_of_mem _ hu))

theorem inRing_zero (K : Ring) : inRing K 0 = true := by
  cases K with
  | none => rfl
  | some M => simp [inRing, inRingM]

/-- a canonical term list: its parts -/
theorem canonical_cons (K : Ring) (t : Term) (p : MPoly) (h : isCanonical K (t :: p) = true) :
    isCanonical K p = true ∧ t.2 ≠ 0 ∧ inRing K t.2 = true ∧ monoCanon t.1 = true ∧
    (∀ u ∈ p, Mono.lt t.1 u.1 = true) ∧ (∀ u ∈ p, monoCanon u.1 = true) := by
  unfold isCanonical at h ⊢
  simp only [Bool.and_eq_true, List.all_cons, List.all_eq_true, decide_eq_true_eq, ne_eq] at h ⊢
  obtain ⟨hs, ⟨⟨h1, h2⟩, h3⟩, hall⟩ := h
  have hpw := sortedLt_pairwise _ hs
  refine ⟨⟨?_, hall⟩, h1, h2, h3, (List.pairwise_cons.1 hpw).1, fun u hu => (hall u hu).2⟩
  cases p with
  | nil => rfl
  | cons b r => simp only [sortedLt, Bool.and_eq_true] at hs; exact hs.2

/-- **canonical term lists are unique**: two canonical lists that denote the same polynomial are equal -/
theorem C01_canonical_unique (K : Ring)
    (hinj : ∀ c d : Int, inRing K c = true → inRing K d = true → ((c : Int) : R) = ((d : Int) : R) → c = d) :
    ∀ (p q : MPoly), isCanonical K p = true → isCanonical K q = true → den R p = den R q → p = q := by
  have hnz : ∀ c : Int, inRing K c = true → c ≠ 0 → ((c : Int) : R) ≠ 0 := by
    intro c hc hne h0
    exact hne (hinj c 0 hc (inRing_zero K) (by rw [h0]; simp))
  -- the head monomial does not occur behind it
  have behind : ∀ (m : Mono) (p : MPoly), monoCanon m = true → (∀ u ∈ p, Mono.lt m u.1 = true) →
      (∀ u ∈ p, monoCanon u.1 = true) → ∀ u ∈ p, Mono.toFinsupp u.1 ≠ Mono.toFinsupp m := by
    intro m p hm hlt hcan u hu he
    have := Mono.canon_injective u.1 m (hcan u hu) hm he
    have hl := hlt u hu
    rw [this] at hl
    exact Mono.lt_irrefl' m hl
  intro p
  induction p with
  | nil =>
    intro q _ hq h
    cases q with
    | nil => rfl
    | cons u q =>
      exfalso
      obtain ⟨_, h1, h2, h3, h4, h5⟩ := canonical_cons K u q hq
      have := congrArg (coeff (Mono.toFinsupp u.1)) h
      rw [den_nil, coeff_zero, den_cons, coeff_add, coeff_monomial, if_pos rfl,
        coeff_den_zero _ q (behind u.1 q h3 h4 h5), add_zero] at this
      exact hnz u.2 h2 h1 this.symm
  | cons t p ih =>
    intro q hp hq h
    obtain ⟨hp', t1, t2, t3, t4, t5⟩ := canonical_cons K t p hp
    have ct : coeff (Mono.toFinsupp t.1) (den R (t :: p)) = ((t.2 : Int) : R) := by
      rw [den_cons, coeff_add, coeff_monomial, if_pos rfl, coeff_den_zero _ p (behind t.1 p t3 t4 t5), add_zero]
    cases q with
    | nil =>
      exfalso
      have := congrArg (coeff (Mono.toFinsupp t.1)) h
      rw [ct, den_nil, coeff_zero] at this
      exact hnz t.2 t2 t1 this
    | cons u q =>
      obtain ⟨hq', u1, u2, u3, u4, u5⟩ := canonical_cons K u q hq
      have cu : coeff (Mono.toFinsupp u.1) (den R (u :: q)) = ((u.2 : Int) : R) := by
        rw [den_cons, coeff_add, coeff_monomial, if_pos rfl, coeff_den_zero _ q (behind u.1 q u3 u4 u5), add_zero]
      -- compare the head monomials
      rcases lt_trichotomy (Mono.toL t.1) (Mono.toL u.1) with hlt | heq | hgt
      · exfalso
        have hl : Mono.lt t.1 u.1 = true := (Mono.lt_iff_toL _ _).2 hlt
        have hall : ∀ v ∈ u :: q, Mono.toFinsupp v.1 ≠ Mono.toFinsupp t.1 :=
          behind t.1 (u :: q) t3 (fun v hv => by
            rcases List.mem_cons.1 hv with rfl | hv'
            · exact hl
            · exact Mono.lt_trans' _ _ _ hl (u4 v hv')) (fun v hv => by
            rcases List.mem_cons.1 hv with rfl | hv'
            · exact u3
            · exact u5 v hv')
        have := congrArg (coeff (Mono.toFinsupp t.1)) h
        rw [ct, coeff_den_zero _ (u :: q) hall] at this
        exact hnz t.2 t2 t1 this
      · have hm : t.1 = u.1 := Mono.toL_injective heq
        have hc : t.2 = u.2 := by
          have := congrArg (coeff (Mono.toFinsupp t.1)) h
          rw [ct, hm, cu] at this
          exact hinj t.2 u.2 t2 u2 this
        have htu : t = u := Prod.ext hm hc
        subst htu
        rw [den_cons, den_cons] at h
        rw [ih q hp' hq' (add_left_cancel h)]
      · exfalso
        have hl : Mono.lt u.1 t.1 = true := (Mono.lt_iff_toL _ _).2 hgt
        have hall : ∀ v ∈ t :: p, Mono.toFinsupp v.1 ≠ Mono.toFinsupp u.1 :=
          behind u.1 (t :: p) u3 (fun v hv => by
            rcases List.mem_cons.1 hv with rfl | hv'
            · exact hl
            · exact Mono.lt_trans' _ _ _ hl (t4 v hv')) (fun v hv => by
            rcases List.mem_cons.1 hv with rfl | hv'
            · exact t3
            · exact t5 v hv')
        have := congrArg (coeff (Mono.toFinsupp u.1)) h
        rw [cu, coeff_den_zero _ (t :: p) hall] at this
        exact hnz u.2 u2 u1 this.symm

end MPoly

/-- over ℤ -/
theorem C01_canonical_unique_Z (p q : MPoly) (hp : MPoly.isCanonical none p = true) (hq : MPoly.isCanonical none q = true)
    (h : MPoly.den ℤ p = MPoly.den ℤ q) : p = q :=
  MPoly.C01_canonical_unique (R := ℤ) none (fun c d _ _ h => by simpa using h) p q hp hq h

/-- over Z_M: canonical lists have their coefficients in the symmetric range, where representatives are unique -/
theorem C01_canonical_unique_ZMod (M : Nat) (hM : 2 ≤ M) (p q : MPoly) (hp : MPoly.isCanonical (some M) p = true)
    (hq : MPoly.isCanonical (some M) q = true) (h : MPoly.den (ZMod M) p = MPoly.den (ZMod M) q) : p = q := by
  refine MPoly.C01_canonical_unique (R := ZMod M) (some M) (fun c d hc hd he => ?_) p q hp hq h
  have h1 := (C17_inRingM_iff M (by omega) c).1 hc
  have h2 := (C17_inRingM_iff M (by omega) d).1 hd
  exact C17_range_unique M c d h1 h2 ((ZMod.intCast_eq_intCast_iff c d M).1 he)

/-- non-vacuity: a canonical list with two terms -/
example : MPoly.isCanonical none [([], 1), ([(0, 1)], 2)] = true := by decide

end LP
