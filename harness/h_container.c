/* C20 harness: polynomial hash set, heap and vector, driven by operation histories.
 * One case = one history on one container; the whole history is one protocol line so that the
 * (stateful) model can replay it:   hset run <ops> => <returns> | <final slots>
 * Elements come from a pool of distinct polynomials; each is reported as  id#hash .
 * Pools are built so that many elements share  hash & 63  (and & 127): collision chains, wrap-around,
 * growth across the 70 % threshold, removal from the middle of a chain.
 */
#include "common.h"
#include <poly.h>
#include <integer.h>
#include <variable_db.h>
#include <variable_order.h>
#include <polynomial_context.h>
#include <polynomial.h>
#include <polynomial_hash_set.h>
#include <polynomial_heap.h>
#include <polynomial_vector.h>

static lp_variable_db_t* var_db; static lp_variable_order_t* var_order; static lp_polynomial_context_t* ctx;
static lp_variable_t X, Y;

#define POOLMAX 4096
static lp_polynomial_t* pool[POOLMAX]; static size_t pool_hash[POOLMAX]; static int npool = 0;
/* groups of pool indices sharing hash & 63 */
static int by_slot[64][POOLMAX / 8]; static int by_slot_n[64];

static lp_polynomial_t* mk_poly(long a, unsigned da, long b, unsigned db, long c) {
  /* a*x^da + b*y^db + c */
  lp_polynomial_t* p = lp_polynomial_new(ctx);
  lp_integer_t z; lp_integer_construct(&z);
  long cs[3] = { a, b, c }; unsigned ds[3] = { da, db, 0 }; lp_variable_t vs[3] = { X, Y, X };
  for (int k = 0; k < 3; ++k) {
    lp_polynomial_t* t = lp_polynomial_alloc();
    lp_integer_assign_int(lp_Z, &z, cs[k]); lp_polynomial_construct_simple(t, ctx, &z, vs[k], ds[k]);
    lp_polynomial_add(p, p, t); lp_polynomial_delete(t);
  }
  lp_integer_destruct(&z);
  return p;
}

static void build_pool(void) {
  for (long c = -40; c <= 40 && npool < POOLMAX; ++c) pool[npool++] = mk_poly(0, 0, 0, 0, c);
  for (long a = -6; a <= 6; ++a) for (unsigned d = 1; d <= 3; ++d) for (long c = -6; c <= 6 && npool < POOLMAX; ++c) if (a) pool[npool++] = mk_poly(a, d, 0, 0, c);
  for (long a = 1; a <= 4; ++a) for (long b = -4; b <= 4; ++b) for (unsigned d = 1; d <= 2; ++d) for (long c = -3; c <= 3 && npool < POOLMAX; ++c) if (b) pool[npool++] = mk_poly(a, d, b, d, c);
  for (int i = 0; i < npool; ++i) {
    pool_hash[i] = lp_polynomial_hash(pool[i]);
    int s = (int)(pool_hash[i] & 63);
    if (by_slot_n[s] < POOLMAX / 8) by_slot[s][by_slot_n[s]++] = i;
  }
}
static int pool_index(const lp_polynomial_t* p) {
  size_t h = lp_polynomial_hash(p);
  for (int i = 0; i < npool; ++i) if (pool_hash[i] == h && lp_polynomial_eq(pool[i], p)) return i;
  return -1;
}
/* the source of a move must be the zero polynomial for every observer: is_zero, equality with a fresh zero, and its hash */
static int src_is_zero(const lp_polynomial_t* c) {
  lp_polynomial_t* z = lp_polynomial_new(ctx);
  int ok = lp_polynomial_is_zero(c) && lp_polynomial_eq(c, z) && lp_polynomial_hash(c) == lp_polynomial_hash(z);
  lp_polynomial_delete(z);
  return ok;
}
static void sb_elem(int id) { sb_long(id); sb_str("#"); sb_ulong(pool_hash[id]); }

/* pick an element: from a few "hot" slots (collisions), neighbours of them (chains that run into each other), or anywhere */
static int hot[4];
static int pick_elem(void) {
  unsigned k = rnd(100);
  if (k < 55) { int s = hot[rnd(2)]; if (by_slot_n[s]) return by_slot[s][rnd(by_slot_n[s] < 12 ? by_slot_n[s] : 12)]; }
  if (k < 80) { int s = (hot[rnd(4)] + (int)rnd(3)) & 63; if (by_slot_n[s]) return by_slot[s][rnd(by_slot_n[s] < 6 ? by_slot_n[s] : 6)]; }
  return (int)rnd(npool);
}

/* ---- hash set history ---- */
static char retbuf[1 << 16]; static size_t retlen;
static void ret_add(const char* s) { size_t n = strlen(s); if (retlen + n + 2 < sizeof retbuf) { if (retlen) retbuf[retlen++] = ','; memcpy(retbuf + retlen, s, n + 1); retlen += n; } }
static void ret_long(long v) { char t[32]; snprintf(t, sizeof t, "%ld", v); ret_add(t); }

static void hset_history(void) {
  lp_polynomial_hash_set_t* set = lp_polynomial_hash_set_new();
  int nops = chance(30) ? 60 + (int)rnd(120) : 4 + (int)rnd(40);
  hot[0] = 60 + (int)rnd(4); hot[1] = (int)rnd(64); hot[2] = hot[0]; hot[3] = (int)rnd(64);   /* hot slot near the end: wrap-around */
  if (chance(50)) hot[0] = (int)rnd(64);
  sb_begin("hset", "run"); sb_sp();
  retlen = 0; retbuf[0] = 0;
  int closed = 0;
  int bulk = chance(15) ? 35 + (int)rnd(70) : 0;      /* start with many inserts: growth across the 70% threshold */
  nops += bulk;
  for (int k = 0; k < nops; ++k) {
    if (k) sb_str(",");
    unsigned op = rnd(100);
    int id = pick_elem();
    if (k < bulk) { op = 0; if (chance(60)) id = (int)rnd(npool); }
    if (closed) op = 99;
    if (op < 45) { /* insert copy */
      sb_str("i:"); sb_elem(id); NOTE("%.3000s", sb_buf);
      ret_long(lp_polynomial_hash_set_insert(set, pool[id]));
    } else if (op < 52) { /* insert move: source must become zero */
      lp_polynomial_t* c = lp_polynomial_new_copy(pool[id]);
      sb_str("m:"); sb_elem(id); NOTE("%.3000s", sb_buf);
      int r = lp_polynomial_hash_set_insert_move(set, c);
      /* returns: inserted flag, and whether the source is zero afterwards (only promised when inserted) */
      ret_long(r * 10 + (r ? src_is_zero(c) : (lp_polynomial_is_zero(c) ? 1 : 0)));
      lp_polynomial_delete(c);
    } else if (op < 72) { /* remove */
      sb_str("r:"); sb_elem(id); NOTE("%.3000s", sb_buf);
      ret_long(lp_polynomial_hash_set_remove(set, pool[id]));
    } else if (op < 88) { /* contains */
      sb_str("c:"); sb_elem(id); NOTE("%.3000s", sb_buf);
      ret_long(lp_polynomial_hash_set_contains(set, pool[id]));
    } else if (op < 92) { /* size / is_empty */
      sb_str("s:0#0"); ret_long((long)lp_polynomial_hash_set_size(set) * 10 + lp_polynomial_hash_set_is_empty(set));
    } else if (op < 96) { /* intersect with a second set holding a few of the hot elements */
      lp_polynomial_hash_set_t* other = lp_polynomial_hash_set_new();
      sb_str("x:");
      int m = (int)rnd(8);
      for (int j = 0; j < m; ++j) { int e = pick_elem(); if (j) sb_str("+"); sb_elem(e); lp_polynomial_hash_set_insert(other, pool[e]); }
      if (!m) sb_str("0#0");
      NOTE("%.3000s", sb_buf);
      if (m) { lp_polynomial_hash_set_intersect(set, other); ret_long((long)lp_polynomial_hash_set_size(set)); }
      else ret_long(-1);
      lp_polynomial_hash_set_delete(other);
    } else if (op < 98) { /* vector insert */
      lp_polynomial_vector_t* v = lp_polynomial_vector_new(ctx);
      sb_str("v:"); int m = 1 + (int)rnd(4);
      for (int j = 0; j < m; ++j) { int e = pick_elem(); if (j) sb_str("+"); sb_elem(e); lp_polynomial_vector_push_back(v, pool[e]); }
      NOTE("%.3000s", sb_buf);
      ret_long(lp_polynomial_hash_set_insert_vector(set, v));
      lp_polynomial_vector_delete(v);
    } else if (op < 99 && !closed) { /* clear */
      sb_str("l:0#0"); lp_polynomial_hash_set_clear(set); ret_long(0);
    } else { /* close + enumerate */
      sb_str("k:0#0"); NOTE("%.3000s", sb_buf);
      if (!closed) { lp_polynomial_hash_set_close(set); closed = 1; }
      size_t n = lp_polynomial_hash_set_size(set);
      long bad = 0;
      for (size_t j = 0; j < n; ++j) if (!lp_polynomial_hash_set_at(set, j)) bad++;
      if (lp_polynomial_hash_set_at(set, n) != 0) bad += 1000;
      ret_long(bad);
      nops = k + 1;
    }
  }
  sb_arrow(); sb_sp(); sb_str(retlen ? retbuf : "_"); sb_str(" | ");
  /* final state: size, data_size, closed, and the slots (closed: the first `size` entries) */
  sb_ulong(set->size); sb_sp(); sb_ulong(set->data_size); sb_sp(); sb_long(set->closed); sb_sp();
  size_t lim = set->closed ? set->size : set->data_size; int first = 1;
  for (size_t j = 0; j < lim; ++j) {
    if (!first) sb_str(","); first = 0;
    if (set->data[j]) { int id = pool_index(set->data[j]); if (id < 0) sb_str("?"); else sb_long(id); } else sb_str(".");
  }
  if (first) sb_str("_");
  sb_emit();
  lp_polynomial_hash_set_delete(set);
}

/* ---- heap history: the comparison function orders polynomials by their pool index ---- */
static int heap_cmp(const lp_polynomial_t* a, const lp_polynomial_t* b) {
  int i = pool_index(a), j = pool_index(b);
  return i < j ? -1 : (i > j ? 1 : 0);
}
static void heap_history(void) {
  lp_polynomial_heap_t* heap = lp_polynomial_heap_new(heap_cmp);
  int nops = chance(20) ? 50 + (int)rnd(60) : 3 + (int)rnd(30);
  int range = 3 + (int)rnd(chance(50) ? 8 : 60);   /* small range: duplicates */
  sb_begin("heap", "run"); sb_sp();
  retlen = 0; retbuf[0] = 0;
  for (int k = 0; k < nops; ++k) {
    if (k) sb_str(",");
    unsigned op = rnd(100);
    int id = (int)rnd(range);
    if (op < 45) { sb_str("p:"); sb_long(id); NOTE("%.3000s", sb_buf); lp_polynomial_heap_push(heap, pool[id]); ret_long((long)lp_polynomial_heap_size(heap)); }
    else if (op < 50) {
      lp_polynomial_t* c = lp_polynomial_new_copy(pool[id]);
      sb_str("m:"); sb_long(id); NOTE("%.3000s", sb_buf);
      lp_polynomial_heap_push_move(heap, c); ret_long((long)lp_polynomial_heap_size(heap) * 10 + src_is_zero(c));
      lp_polynomial_delete(c);
    } else if (op < 70) {
      sb_str("q:0"); NOTE("%.3000s", sb_buf);
      lp_polynomial_t* t = lp_polynomial_heap_pop(heap);
      if (t) { ret_long(pool_index(t)); lp_polynomial_delete(t); } else ret_long(-1);
    } else if (op < 80) {
      sb_str("t:0"); const lp_polynomial_t* t = lp_polynomial_heap_peek(heap); ret_long(t ? pool_index(t) : -1);
    } else if (op < 97) {
      sb_str("r:"); sb_long(id); NOTE("%.3000s", sb_buf);
      ret_long(lp_polynomial_heap_remove(heap, pool[id]));
    } else if (op < 99) {
      lp_polynomial_vector_t* v = lp_polynomial_vector_new(ctx);
      sb_str("v:"); int m = 1 + (int)rnd(4);
      for (int j = 0; j < m; ++j) { int e = (int)rnd(range); if (j) sb_str("+"); sb_long(e); lp_polynomial_vector_push_back(v, pool[e]); }
      NOTE("%.3000s", sb_buf);
      lp_polynomial_heap_push_vector(heap, v); ret_long((long)lp_polynomial_heap_size(heap));
      lp_polynomial_vector_delete(v);
    } else { sb_str("l:0"); lp_polynomial_heap_clear(heap); ret_long(0); }
  }
  sb_arrow(); sb_sp(); sb_str(retlen ? retbuf : "_"); sb_str(" | ");
  size_t n = lp_polynomial_heap_size(heap); sb_ulong(n); sb_sp();
  for (size_t j = 0; j < n; ++j) { if (j) sb_str(","); sb_long(pool_index(lp_polynomial_heap_at(heap, j))); }
  if (!n) sb_str("_");
  if (lp_polynomial_heap_at(heap, n) != 0) sb_str(" at-past-end-nonnull");
  sb_emit();
  lp_polynomial_heap_delete(heap);
}

/* ---- vector history ---- */
static void vector_history(void) {
  lp_polynomial_vector_t* v = lp_polynomial_vector_new(ctx);
  int nops = 1 + (int)rnd(40);
  sb_begin("pvec", "run"); sb_sp();
  retlen = 0; retbuf[0] = 0;
  for (int k = 0; k < nops; ++k) {
    if (k) sb_str(",");
    int id = (int)rnd(npool);
    if (chance(80)) { sb_str("p:"); sb_long(id); lp_polynomial_vector_push_back(v, pool[id]); ret_long((long)lp_polynomial_vector_size(v)); }
    else { lp_polynomial_t* c = lp_polynomial_new_copy(pool[id]); sb_str("m:"); sb_long(id);
      lp_polynomial_vector_push_back_move(v, c); ret_long((long)lp_polynomial_vector_size(v) * 10 + src_is_zero(c)); lp_polynomial_delete(c); }
  }
  sb_arrow(); sb_sp(); sb_str(retbuf); sb_str(" | ");
  size_t n = lp_polynomial_vector_size(v); sb_ulong(n); sb_sp();
  for (size_t j = 0; j < n; ++j) { lp_polynomial_t* t = lp_polynomial_vector_at(v, j); if (j) sb_str(","); sb_long(pool_index(t)); lp_polynomial_delete(t); }
  if (!n) sb_str("_");
  sb_emit();
  lp_polynomial_vector_delete(v);
}

int main(int argc, char** argv) {
  uint64_t seed = argc > 1 ? strtoull(argv[1], 0, 10) : 1;
  long n = argc > 2 ? atol(argv[2]) : 1000;
  long only = argc > 3 ? atol(argv[3]) : -1;
  long start = argc > 4 ? atol(argv[4]) : 0;
  lpv_init();
  var_db = lp_variable_db_new(); var_order = lp_variable_order_new();
  X = lp_variable_db_new_variable(var_db, "x"); Y = lp_variable_db_new_variable(var_db, "y");
  lp_variable_order_push(var_order, X); lp_variable_order_push(var_order, Y);
  ctx = lp_polynomial_context_new(lp_Z, var_db, var_order);
  build_pool();
  for (long i = 0; i < n; ++i) {
    if ((only >= 0 && i != only) || i < start) continue;
    lpv_begin_case(seed, i);
    unsigned f = rnd(10);
    if (f < 6) hset_history(); else if (f < 9) heap_history(); else vector_history();
  }
  for (int i = 0; i < npool; ++i) lp_polynomial_delete(pool[i]);
  lp_polynomial_context_detach(ctx); lp_variable_order_detach(var_order); lp_variable_db_detach(var_db);
  free(sb_buf);
  return 0;
}
