import LP.Model.FSI
import LP.Driver.Scalar
namespace LP.Driver
open LP

def pFSI? (M : Nat) (s : String) : Option FSI :=
  let inv := s.startsWith "~"
  if !(inv || s.startsWith "+") then none else
  (pList? pInt? (s.drop 1).toString).map (fun l => ⟨M, l, inv⟩)

def showFSI (s : FSI) : String := (if s.inverted then "~" else "+") ++ showList toString s.elems

def sortedStrict : List Int → Bool
  | [] => true
  | [_] => true
  | a :: b :: l => a < b && sortedStrict (b :: l)

/-- representation invariant: strictly increasing, all in the symmetric range -/
def reprOk (s : FSI) : Bool := sortedStrict s.elems && s.elems.all (inRingM s.M)

def showStatus : FStatus → String
  | .s1 => "S1" | .s2 => "S2" | .new => "NEW" | .empty => "EMPTY"

/-- semantic equality of two sets over the same field -/
def semEq (a b : FSI) : Bool :=
  if a.M ≤ 20000 then (FSI.univ a.M).all (fun v => a.contains v == b.contains v)
  else a.inverted == b.inverted && a.elems == b.elems

def isBig (M : Nat) : Bool := M ≥ 2 ^ 64

def checkFSI (op : String) (args res : List String) : Verdict :=
  match args with
  | [] => .skip "no ring"
  | rs :: rest =>
    match pRing? rs with
    | some (some M, _) =>
      let big := isBig M
      let sizeTag := if M ≤ 7 then "tiny" else if M < 1000 then "small" else if big then "multilimb" else "large"
      let set2 (f : FSI → FSI → Verdict) : Verdict :=
        match rest with
        | [a, b] => (match pFSI? M a, pFSI? M b with
            | some a, some b => if reprOk a && reprOk b then f a b else .viol "fsi-repr" "operand not sorted/unique/in range"
            | _, _ => .skip "bad set")
        | _ => .skip "arity"
      let set1 (f : FSI → Verdict) : Verdict :=
        match rest with
        | [a] => (match pFSI? M a with
            | some a => if reprOk a then f a else .viol "fsi-repr" s!"set not sorted/unique/in range {showFSI a}"
            | _ => .skip "bad set")
        | _ => .skip "arity"
      let repTag (a b : FSI) : String := (if a.inverted then "c" else "l") ++ (if b.inverted then "c" else "l")
      let judgeBin (isInter : Bool) (withSt : Bool) : Verdict :=
        set2 fun a b =>
          let want := if isInter then FSI.intersect big a b else FSI.union big a b
          match res with
          | r :: restRes =>
            (match pFSI? M r with
             | none => .skip "bad result"
             | some r =>
               if !reprOk r then .viol "fsi-repr" s!"result not sorted/unique/in range {showFSI r}" else
               let stGot := restRes.headD ""
               let stOk := !withSt || stGot = showStatus want.2
               let tag := s!"{op}/{sizeTag}/{repTag a b}/{showStatus want.2}"
               if r = want.1 ∧ stOk then .ok tag else
                 -- property-level oracle
                 let expectMem : Int → Bool := fun v => if isInter then a.contains v && b.contains v else a.contains v || b.contains v
                 let probes := a.elems ++ b.elems ++ r.elems ++ (if M ≤ 20000 then FSI.univ M else [0, 1, -1, 2, lb M, ub M])
                 match probes.find? (fun v => r.contains v != expectMem v) with
                 | some v => .viol (if isInter then "fsi-intersect" else "fsi-union") s!"element {v}: got {r.contains v} want {expectMem v}; result {showFSI r}"
                 | none =>
                   if withSt then
                     let stSem : Bool :=
                       if stGot = "EMPTY" then r.isEmpty
                       else if r.isEmpty then false
                       else if stGot = "S1" then semEq r a
                       else if stGot = "S2" then semEq r b
                       else !(semEq r a) && !(semEq r b)
                     if !stSem then .viol "fsi-status" s!"status {stGot} wrong for result {showFSI r} (model {showStatus want.2})"
                     else .disagree s!"got {showFSI r} {stGot} model {showFSI want.1} {showStatus want.2}"
                   else .disagree s!"got {showFSI r} model {showFSI want.1}")
          | [] => .skip "no result"
      match op, res with
      | "intersect", _ => judgeBin true true
      | "union", _ => judgeBin false true
      | "intersect0", _ => judgeBin true false
      | "union0", _ => judgeBin false false
      | "add", _ => judgeBin false false
      | "assign", [r] => set2 fun _ b => expectEq "assign" "fsi-assign" r (showFSI b)
      | "copy", [r] => set1 fun a => expectEq "copy" "fsi-copy" r (showFSI a)
      | "eq", [r] => set2 fun a b =>
          -- property: eq answers whether the two denote the same subset
          let sem := if M ≤ 20000 then semEq a b else FSI.eq big a b
          let tag := s!"eq/{sizeTag}/{repTag a b}/{sem}"
          if r = (if sem then "1" else "0") then
            (if FSI.eq big a b = sem then .ok tag else .disagree s!"model eq differs from semantic equality")
          else .viol "fsi-eq" s!"got {r} but sets {if sem then "are" else "are not"} equal"
      | "isempty", [r] => set1 fun a => expectEq s!"isempty/{a.isEmpty}" "fsi-isempty" r (if a.isEmpty then "1" else "0")
      | "isfull", [r] => set1 fun a => expectEq s!"isfull/{a.isFull}" "fsi-isfull" r (if a.isFull then "1" else "0")
      | "ispoint", [r] => set1 fun a => expectEq s!"ispoint/{a.isPoint}" "fsi-ispoint" r (if a.isPoint then "1" else "0")
      | "size", [r] => set1 fun a => expectEq "size" "fsi-size" r (toString a.size)
      | "pick", [r] => set1 fun a =>
          (match pInt? r with
           | some v =>
             if !(inRingM M v && a.contains v) then .viol "fsi-pick" s!"picked {v} not in set {showFSI a}"
             else if a.inverted then
               (match FSI.pickInverted a with
                | some w => if w = v then .ok "pick/inverted" else .disagree s!"pick model {w} got {v}"
                | none => .skip "fuel")
             else .ok "pick/listed"
           | none => .skip "bad")
      | "contains", [r] =>
          (match rest with
           | [a, v] => (match pFSI? M a, pInt? v with
              | some a, some v =>
                expectEq s!"contains/{sizeTag}/{if a.inverted then "c" else "l"}/{if inRingM M v then "norm" else "unnorm"}" "fsi-contains" r (if a.contains v then "1" else "0")
              | _, _ => .skip "bad")
           | _ => .skip "arity")
      | "new", [r] =>
          (match rest with
           | [inv, l] => (match pList? pInt? l with
              | some l => expectEq "new" "fsi-new" r (showFSI (FSI.ofList M l (inv = "1")))
              | none => .skip "bad")
           | _ => .skip "arity")
      | _, _ => .skip s!"unknown fsi op {op}"
    | _ => .skip "bad ring"

end LP.Driver
