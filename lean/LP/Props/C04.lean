/-
  C04 — resultants, principal subresultant coefficients and subresultants are exact.
  The C results are compared on every run with the executable reference `LP.Model.Resultant`
  (Sylvester-type matrices over the reference polynomial ring + Laplace expansion).  Proved here for all
  square matrices of every size: the Laplace expansion of the model computes `Matrix.det` of the denoted
  matrix over `MvPolynomial ℕ R` (R = ℤ or ZMod M).
-/
import LP.Model.Resultant
import LP.Props.C01
import Mathlib.LinearAlgebra.Matrix.Determinant.Basic
import Mathlib.Data.Fin.Tuple.Basic
import Mathlib.Algebra.BigOperators.Fin

namespace LP
namespace MPoly
open MvPolynomial

variable {R : Type} [CommRing R] {K : Ring} (hK : Compatible K R)

/-- the matrix denoted by a list of rows -/
noncomputable def matDen (R : Type) [CommRing R] (M : Matrix) (n : Nat) : _root_.Matrix (Fin n) (Fin n) (MvPolynomial ℕ R) :=
  fun i j => den R ((M.getD i.val []).getD j.val [])

theorem den_empty_of_isEmpty (e : MPoly) (h : e.isEmpty = true) : den R e = 0 := by
  have : e = [] := by simpa using h
  rw [this]; rfl

theorem getD_removeAt (l : List MPoly) (j k : Nat) :
    (removeAt l j).getD k [] = l.getD (if k < j then k else k + 1) [] := by
  unfold removeAt
  simp only [List.getD_eq_getElem?_getD, List.getElem?_append, List.length_take, List.getElem?_take,
    List.getElem?_drop]
  by_cases hk : k < j
  · simp only [hk, if_true]
    by_cases hkl : k < l.length
    · rw [if_pos (by omega)]
    · rw [if_neg (by omega)]
      rw [List.getElem?_eq_none (by omega), List.getElem?_eq_none (by omega)]
  · simp only [hk, if_false]
    by_cases hjl : j ≤ l.length
    · rw [if_neg (by omega), Nat.min_eq_left hjl]
      congr 2; omega
    · rw [if_neg (by omega)]
      rw [List.getElem?_eq_none (by omega), List.getElem?_eq_none (by omega)]

include hK in
/-- the accumulating Laplace sum over a prefix-indexed list of entries -/
theorem foldl_laplace (rest : Matrix) (fuel : Nat) (D : Nat → MvPolynomial ℕ R)
    :
    ∀ (l : List (MPoly × Nat)) (acc : MPoly),
      (∀ e ∈ l, den R (det K fuel (rest.map (fun r => removeAt r e.2))) = D e.2) →
      den R (l.foldl (fun acc (e : MPoly × Nat) =>
        if e.1.isEmpty then acc
        else
          let minor := rest.map (fun r => removeAt r e.2)
          let term := mul K e.1 (det K fuel minor)
          if e.2 % 2 = 0 then add K acc term else sub K acc term) acc)
      = den R acc + (l.map (fun e => (-1 : MvPolynomial ℕ R) ^ e.2 * den R e.1 * D e.2)).sum := by
  intro l
  induction l with
  | nil => intro acc _; simp
  | cons e l ih =>
    intro acc hD'
    have hD := hD' e List.mem_cons_self
    rw [List.foldl_cons, ih _ (fun e' he' => hD' e' (List.mem_cons_of_mem _ he')), List.map_cons, List.sum_cons, ← add_assoc]
    congr 1
    by_cases he : e.1.isEmpty = true
    · rw [if_pos he, den_empty_of_isEmpty e.1 he]; simp
    · rw [if_neg he]
      simp only
      by_cases hp : e.2 % 2 = 0
      · rw [if_pos hp, C01_add hK, C01_mul hK, hD]
        have : Even e.2 := Nat.even_iff.2 hp
        rw [this.neg_one_pow]; ring
      · rw [if_neg hp, C01_sub hK, C01_mul hK, hD]
        have : Odd e.2 := Nat.odd_iff.2 (by omega)
        rw [this.neg_one_pow]; ring

include hK in
/-- Laplace expansion of the model = `Matrix.det` of the denoted matrix, for every size -/
theorem C04_det (n : Nat) : ∀ (M : Matrix) (fuel : Nat), M.length = n → (∀ r ∈ M, r.length = n) → n ≤ fuel →
    den R (det K fuel M) = (matDen R M n).det := by
  induction n with
  | zero =>
    intro M fuel hl _ _
    have : M = [] := List.length_eq_zero_iff.1 hl
    subst this
    rw [_root_.Matrix.det_isEmpty]
    cases fuel <;> simp [det, C01_const hK]
  | succ n ih =>
    intro M fuel hl hr hf
    obtain ⟨fuel', rfl⟩ : ∃ f, fuel = f + 1 := ⟨fuel - 1, by omega⟩
    cases M with
    | nil => simp at hl
    | cons row rest =>
      have hrest : rest.length = n := by simpa using hl
      have hrow : row.length = n + 1 := hr row List.mem_cons_self
      rw [det]
      -- the minors
      have hD : ∀ j, j < n + 1 → den R (det K fuel' (rest.map (fun r => removeAt r j))) =
          (matDen R (rest.map (fun r => removeAt r j)) n).det := by
        intro j hj
        apply ih _ _ (by simpa using hrest) _ (by omega)
        intro r hr'
        obtain ⟨r0, hr0, rfl⟩ := List.mem_map.1 hr'
        have := hr r0 (List.mem_cons_of_mem _ hr0)
        unfold removeAt
        rw [List.length_append, List.length_take, List.length_drop]; omega
      rw [foldl_laplace hK rest fuel' (fun j => (matDen R (rest.map (fun r => removeAt r j)) n).det) _ _
        (by
          intro e he
          have := List.mem_zipIdx he
          exact hD e.2 (by have := this.2.1; omega))]
      rw [den_nil, zero_add, _root_.Matrix.det_succ_row_zero]
      -- turn the list sum into the Fin sum
      have hz : row.zipIdx = (List.finRange (n + 1)).map (fun j : Fin (n + 1) => (row.getD j.val [], j.val)) := by
        apply List.ext_getElem
        · simp [hrow]
        · intro i h1 h2
          simp only [List.getElem_zipIdx, List.getElem_map, List.getElem_finRange, Fin.cast_mk, zero_add]
          have hi : i < row.length := by simpa using h1
          simp [List.getD_eq_getElem?_getD, List.getElem?_eq_getElem hi]
      rw [hz, List.map_map, ← List.ofFn_eq_map, List.sum_ofFn]
      apply Finset.sum_congr rfl
      intro j _
      simp only [Function.comp]
      have e1 : matDen R (row :: rest) (n + 1) 0 j = den R (row.getD j.val []) := by
        simp [matDen]
      have e2 : (matDen R (row :: rest) (n + 1)).submatrix Fin.succ j.succAbove =
          matDen R (rest.map (fun r => removeAt r j.val)) n := by
        ext a b
        simp only [_root_.Matrix.submatrix_apply, matDen]
        have ha : a.val < rest.length := by rw [hrest]; exact a.isLt
        rw [show ((row :: rest).getD (Fin.succ a).val []) = rest.getD a.val [] by simp]
        have hg : (rest.map (fun r => removeAt r j.val)).getD a.val [] = removeAt (rest.getD a.val []) j.val := by
          simp [List.getD_eq_getElem?_getD, ha]
        rw [hg, getD_removeAt]
        congr 2
        simp only [Fin.succAbove, Fin.lt_def, Fin.castSucc]
        split_ifs <;> simp_all
      rw [e1, e2]

end MPoly
end LP
